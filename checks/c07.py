"""C07 - an EQL query translated to SQL selects the same entities as in-memory evaluation.

Translation validation on concrete data: for every generated query program the translation is
executed on a database holding the persisted objects and its result (entity uids) is compared with
the in-memory evaluation of an identical query over the same objects.  A rejection by an
EQLTranslationError subclass is agreement; any other exception is reported as 'foreign-exception';
the(...) must fail in both worlds for the same queries.
"""
from __future__ import annotations

import importlib
import json
import os
import shutil
import sys
import tempfile

ID = "C07"
LEVEL = "translation_validation"
RULE = ("random query programs over a mapped model (Leaf, Holder > SubHolder, Tag, Top): the six comparisons between "
        "attribute chains and literals, in_/contains with list, set, tuple, nested-list and string operands (substrings with '_', '%' and mixed case), membership in a JSON-stored collection of builtins, "
        "set_of and attribute selections, and_/or_ nesting, paths across one "
        "and two relationships, equality joins between relationship attributes of two variables, scalar comparisons "
        "between two variables (same and different classes), subclass-typed variables, an and the; plus constructs the "
        "translator does not handle (not_, exists, calls, indexing) to observe the rejection path; a fresh random world "
        "(3-12 objects per class) is persisted per case.  A program is non-trivial when it is accepted and selects a "
        "non-empty proper subset of the root class's rows; distinct = query skeleton")
ASSUMPTIONS = ["results are compared as sets of entity uids",
               "nullable columns are only compared with == (SQL three-valued logic on NULL is not the translation's fault)",
               "a path through an Optional reference is only generated when no object has None there",
               "string containment only with non-empty ASCII needles; SQLite stands for 'a database'"]
ANCHORS = ["EQLTranslator.translate_query", "EQLTranslator.translate_comparator", "EQLTranslator._walk_attribute_chain",
           "EQLTranslator._handle_attribute_equality_join", "EQLTranslator._handle_contains_operator", "eql_to_sql",
           "OperatorMapper.map_comparison_operator"]

CMP = ["==", "!=", "<", "<=", ">", ">="]


def plan(tier):
    return {"cases": 2400 if tier == "quick" else 60000, "shards": 16, "case_timeout": 60, "shard_timeout": 3000,
            "dev_shard": False, "min_nontrivial": 40,
            "min_counters": {"programs": 2000, "accepted": 1000, "rejected": 100, "results_compared": 1000,
                             "the_programs": 100, "join_programs": 100, "path_programs": 200,
                             "accepted:join_rel": 50, "accepted:join_scalar_diff": 30, "kind:join_siblings": 30,
                             "accepted:unselected_subclass": 20, "kind:join_unselected": 20, "kind:two_paths": 40, "accepted:path_and_unselected_subclass": 20, "kind:count_constraint": 20, "kind:truth_of_attribute": 20,
                             "accepted:nullable_columns": 20, "kind:join_below_and_below_or": 20}}


def coverage_extra(counters, evaluations):
    return {"programs": counters.get("programs", 0), "disagreements_checked": counters.get("results_compared", 0),
            "accepted": counters.get("accepted", 0), "rejected": counters.get("rejected", 0),
            "explanation": "each program is translated by eql_to_sql and executed on SQLite; its uid set is compared with the in-memory evaluation"}


def setup(ctx):
    from sqlalchemy.orm import configure_mappers
    from krrood.class_diagrams.class_diagram import ClassDiagram
    from krrood.ormatic.ormatic import ORMatic
    from models import sqlmodel
    work = tempfile.mkdtemp(prefix="verif-c07-")
    ctx["work"] = work
    o = ORMatic(ClassDiagram(list(sqlmodel.VERIF_CLASSES)))
    o.make_all_tables()
    with open(os.path.join(work, "sqlmodel_iface.py"), "w") as f:
        o.to_sqlalchemy_file(f)
    sys.path.insert(0, work)
    ctx["iface"] = importlib.import_module("sqlmodel_iface")
    configure_mappers()
    ctx["sm"] = sqlmodel


def finish(ctx):
    shutil.rmtree(ctx["work"], ignore_errors=True)
    return []


# ------------------------------------------------------------------ generation
def gen_world(rng):
    n_leaf = rng.randint(3, 10)
    leaves = [{"n": rng.randint(0, 4), "s": rng.choice(["ab", "abc", "b", "xa", "", "a b", "A_b", "a%b", "Ab"]),
               "o": rng.choice([None, 0.0, 1.0, 2.5, -1.0]), "k": rng.randint(0, 2),
               "labels": rng.sample(["a", "ab", "b", "c d", "A"], rng.choice([0, 1, 1, 2, 3])),
               "p": rng.choice([None, None, 0.0, 1.0])} for _ in range(n_leaf)]
    other_all = rng.random() < 0.5
    holders = [{"sub": rng.choice([False, False, False, True, True, "side"]), "leaf": rng.randrange(n_leaf), "other": rng.randrange(n_leaf) if (other_all or rng.random() < 0.5) else None,
                "many": [rng.randrange(n_leaf) for _ in range(rng.randint(0, 3))], "extra": rng.randint(0, 4), "bonus": rng.randint(0, 3)}
               for _ in range(rng.randint(3, 8))]
    tags = [{"leaf": rng.randrange(n_leaf), "w": rng.randint(0, 4)} for _ in range(rng.randint(2, 6))]
    subs = [i for i, h in enumerate(holders) if h["sub"] is True]
    spare_all = rng.random() < 0.4
    tops = [{"holder": rng.randrange(len(holders)), "backup": rng.randrange(len(holders)), "rank": rng.randint(0, 3),
             "spare": rng.choice(subs) if subs and (spare_all or rng.random() < 0.5) else None} for _ in range(rng.randint(2, 7))]
    return {"leaves": leaves, "holders": holders, "tags": tags, "tops": tops, "other_all": other_all and all(h["other"] is not None for h in holders)}


SCALARS = {"Leaf": [("n", "int"), ("s", "str"), ("o", "nfloat"), ("k", "int"), ("labels", "strlist")],
           "Holder": [("extra", "int"), ("leaf.n", "int"), ("leaf.s", "str"), ("leaf.k", "int"), ("other.n", "optpath"), ("leaf.labels", "strlist")],
           "SubHolder": [("extra", "int"), ("bonus", "int"), ("leaf.n", "int"), ("leaf.s", "str")],
           "SideHolder": [("extra", "int"), ("side", "int"), ("leaf.n", "int")],
           "Tag": [("w", "int"), ("leaf.n", "int"), ("leaf.k", "int")],
           "Top": [("rank", "int"), ("holder.extra", "int"), ("holder.leaf.n", "int"), ("holder.leaf.s", "str"),
                   ("backup.extra", "int"), ("backup.leaf.n", "int"), ("backup.leaf.k", "int"), ("backup.leaf.s", "str"),
                   ("holder.leaf.k", "int")]}


def gen_atom(rng, var, cls, world):
    path, typ = rng.choice(SCALARS[cls])
    if typ == "optpath":
        # the path crosses a reference that may be None: where it is, the in-memory evaluation of the atom raises and
        # the case is skipped - unless an or_ is decided before the atom is reached
        typ = "int"
    t = ["path", var, path]
    r = rng.random()
    if typ == "nfloat":
        if r < 0.7:
            return ["cmp", rng.choice(["==", "==", "!="]), t, ["lit", rng.choice([None, 0.0, 1.0, 2.5])]]
        # membership in a collection that may hold None: the rows whose value is None belong to the answer
        return ["in", t, ["lit", rng.choice([[0.0, 2.5], [1.0, None], [None], [None, 0.0, 2.5]])]]
    if typ == "strlist":
        # membership in a collection of builtins (one JSON column): an element, not a piece of the stored text
        v = ["lit", rng.choice(["a", "ab", "b", "c", "d", "A", ""])]
        return ["contains", t, v] if r < 0.5 else ["in", v, t]
    if typ == "str":
        if r < 0.5:
            return ["cmp", rng.choice(["==", "!="]), t, ["lit", rng.choice(["ab", "abc", "b", "", "Ab", "AB"])]]
        if r < 0.8:
            # a substring test: '_' and '%' are characters like any other, and case matters
            return ["contains", t, ["lit", rng.choice(["a", "b", "ab", "c", "_", "%", "A", "B", ""])]]
        # collections of 0..3 strings (a one-element collection is not a substring test), either operand order
        pool = rng.sample(["ab", "abc", "b", "xa", "", "a b", "zabc"], rng.choice([0, 1, 1, 1, 2, 2, 3]))
        return ["in", t, ["lit", pool]] if rng.random() < 0.6 else ["contains", ["lit", pool], t]
    if r < 0.6:
        a = ["cmp", rng.choice(CMP), t, ["lit", rng.randint(0, 4)]]
        if rng.random() < 0.15:
            a = ["cmp", a[1], a[3], a[2]]       # literal on the left
        return a
    if r < 0.8:
        return ["in", t, ["lit", sorted(rng.sample(range(5), rng.choice([0, 1, 1, 2, 3])))]]
    if r < 0.9:
        return ["contains", ["lit", sorted(rng.sample(range(5), rng.choice([0, 1, 1, 2, 3])))], t]
    return ["cmp", rng.choice(CMP), t, ["path", var, rng.choice([p for p, ty in SCALARS[cls] if ty == "int"])]]


def gen_cond(rng, var, cls, world, depth):
    if depth == 0 or rng.random() < 0.35:
        return gen_atom(rng, var, cls, world)
    return [rng.choice(["and", "or"]), gen_cond(rng, var, cls, world, depth - 1), gen_cond(rng, var, cls, world, depth - 1)]


def gen(rng, tier, ctx):
    world = gen_world(rng)
    kind = rng.choices(["single", "single", "single", "join_rel", "join_scalar_diff", "join_scalar_same", "join_rel_same",
                        "membership_rel", "var_eq_rel", "reject", "join_in_or", "join_twice", "value_var", "set_of", "select_attr",
                        "odd_collection", "opt_in_or", "join_siblings", "unselected_subclass", "join_unselected", "two_paths",
                        "path_and_unselected_subclass", "nullable_columns", "join_below_and_below_or", "truth_of_attribute", "count_constraint",
                        "chain_through_index", "collection_as_value", "join_over_longer_chain"],
                       [30, 20, 10, 8, 6, 4, 3, 3, 3, 6, 3, 3, 3, 2, 3, 3, 5, 4, 4, 3, 5, 4, 4, 3, 4, 4, 2, 2, 3])[0]
    cls = rng.choice(["Leaf", "Holder", "SubHolder", "SideHolder", "Tag", "Top", "Top"])
    q = {"kind": kind, "quant": "the" if rng.random() < 0.12 else "an", "root": cls, "vars": {"x": cls}}
    if kind == "single":
        q["cond"] = gen_cond(rng, "x", cls, world, rng.randint(0, 3))
        if q["quant"] == "the":
            q["cond"] = ["and", q["cond"], ["cmp", "==", ["path", "x", "uid"], ["lit", rng.randint(1, 12)]]]
    elif kind == "join_rel":
        # attribute-equality join between relationship attributes of two variables of different classes
        q["root"], q["vars"] = "Holder", {"x": "Holder", "y": "Tag"}
        q["cond"] = ["and", ["cmp", "==", ["path", "x", "leaf"], ["path", "y", "leaf"]], gen_atom(rng, "y", "Tag", world)]
        if rng.random() < 0.5:
            q["cond"] = ["and", q["cond"], gen_atom(rng, "x", "Holder", world)]
    elif kind == "join_scalar_diff":
        q["root"], q["vars"] = "Holder", {"x": "Holder", "y": "Tag"}
        q["cond"] = ["cmp", rng.choice(CMP), ["path", "x", "extra"], ["path", "y", "w"]]
    elif kind == "join_scalar_same":
        if rng.random() < 0.4:
            # two variables whose classes inherit from each other: they share the columns of the base table
            q["root"], q["vars"] = "Holder", {"x": "Holder", "y": "SubHolder"}
            q["cond"] = ["cmp", rng.choice(CMP), ["path", "x", "extra"], ["path", "y", "extra"]]
        else:
            q["root"], q["vars"] = "Leaf", {"x": "Leaf", "y": "Leaf"}
            q["cond"] = ["cmp", rng.choice(CMP), ["path", "x", "n"], ["path", "y", "k"]]
    elif kind == "two_paths":
        # two paths over two different references to the same class in one query: each needs a join of its own
        if rng.random() < 0.5:
            q["root"], q["vars"] = "Holder", {"x": "Holder"}
            a = ["cmp", rng.choice(CMP), ["path", "x", "leaf." + rng.choice("nk")], ["lit", rng.randint(0, 4)]]
            b = ["cmp", rng.choice(CMP), ["path", "x", "other." + rng.choice("nk")], ["lit", rng.randint(0, 4)]]
        else:
            q["root"], q["vars"] = "Top", {"x": "Top"}
            tail = rng.choice(["extra", "leaf.n", "leaf.k"])
            a = ["cmp", rng.choice(CMP), ["path", "x", "holder." + tail], ["lit", rng.randint(0, 4)]]
            b = ["cmp", rng.choice(CMP), ["path", "x", "backup." + tail], ["lit", rng.randint(0, 4)]]
        q["cond"] = [rng.choice(["and", "and", "or"]), a, b] if rng.random() < 0.5 else [rng.choice(["and", "and", "or"]), b, a]
    elif kind == "join_siblings":
        # two variables of sibling classes: what they inherit lives in the one table of their common base
        q["root"], q["vars"] = "SubHolder", {"x": "SubHolder", "y": "SideHolder"}
        r = rng.random()
        if r < 0.4:
            q["cond"] = ["cmp", rng.choice(CMP), ["path", "x", "extra"], ["path", "y", "extra"]]
        elif r < 0.7:
            q["cond"] = ["and", ["cmp", "==", ["path", "x", "extra"], ["lit", rng.randint(0, 4)]],
                         ["cmp", "==", ["path", "y", "extra"], ["lit", rng.randint(0, 4)]]]
        else:
            q["cond"] = ["cmp", rng.choice(["==", "!="]), ["path", "x", "leaf"], ["path", "y", "leaf"]]
    elif kind == "unselected_subclass":
        # the variable that is not selected ranges over a sub-class; the attribute it is asked for is inherited
        q["root"], q["vars"] = "Tag", {"x": "Tag", "y": rng.choice(["SubHolder", "SideHolder"])}
        q["cond"] = ["cmp", rng.choice(CMP), ["path", "x", "w"], ["path", "y", "extra"]]
        if rng.random() < 0.4:
            q["cond"] = ["and", q["cond"], gen_atom(rng, "x", "Tag", world)]
    elif kind == "path_and_unselected_subclass":
        # an attribute path of the selected variable joins the table of a sub-class (under an alias); another variable
        # ranges over that sub-class: it is still restricted to it
        q["root"], q["vars"] = "Top", {"x": "Top", "y": "SubHolder"}
        q["cond"] = ["and", ["or", ["in", ["path", "x", "uid"], ["lit", "TOPS_WITHOUT_SPARE"]], ["cmp", ">=", ["path", "x", "spare.bonus"], ["lit", 0]]],
                     ["cmp", rng.choice(CMP), ["path", "x", "rank"], ["path", "y", "extra"]]]
    elif kind == "nullable_columns":
        # two columns that may both be NULL: None == None holds in memory
        q["root"], q["vars"] = "Leaf", {"x": "Leaf"}
        q["cond"] = ["cmp", rng.choice(["==", "==", "!="]), ["path", "x", "o"], ["path", "x", "p"]]
    elif kind == "join_below_and_below_or":
        # an equality join inside a conjunction that is one side of a disjunction
        q["root"], q["vars"] = "Holder", {"x": "Holder", "y": "Tag"}
        j = ["and", ["cmp", "==", ["path", "x", "leaf"], ["path", "y", "leaf"]], gen_atom(rng, "y", "Tag", world)]
        a = gen_atom(rng, "x", "Holder", world)
        q["cond"] = ["or", j, a] if rng.random() < 0.5 else ["or", a, j]
    elif kind == "truth_of_attribute":
        # an attribute as a condition: its truth value
        q["root"], q["vars"] = "Leaf", {"x": "Leaf"}
        q["cond"] = ["truth", ["path", "x", rng.choice(["s", "s", "n", "labels", "o"])]]
        if rng.random() < 0.5:
            q["cond"] = ["and", q["cond"], gen_atom(rng, "x", "Leaf", world)]
    elif kind == "count_constraint":
        # an(...) with a constraint on the number of results
        q["cond"] = gen_cond(rng, "x", cls, world, 1)
        q["quant"] = "an"
        q["quantification"] = [rng.choice(["Exactly", "AtMost", "AtLeast"]), rng.randint(0, 3)]
    elif kind == "chain_through_index":
        # something else than an attribute in the middle of a chain
        q["root"], q["vars"] = "Holder", {"x": "Holder"}
        q["cond"] = ["cmp", rng.choice(CMP), ["ipath", "x", "many", 0, "n"], ["lit", rng.randint(0, 4)]]
    elif kind == "collection_as_value":
        q["root"], q["vars"] = "Holder", {"x": "Holder"}
        q["cond"] = ["in", ["path", "x", "leaf"], ["path", "x", "many"]]
    elif kind == "join_over_longer_chain":
        q["root"], q["vars"] = "Top", {"x": "Top", "y": "Tag"}
        q["cond"] = ["cmp", "==", ["path", "x", "holder.leaf"], ["path", "y", "leaf"]]
    elif kind == "join_unselected":
        # a join between two variables of which neither is the selected one
        q["root"], q["vars"] = "Top", {"x": "Top", "y": "Holder", "z": "Tag"}
        q["cond"] = ["and", ["cmp", "==", ["path", "y", "leaf"], ["path", "z", "leaf"]], gen_atom(rng, "x", "Top", world)]
        if rng.random() < 0.5:
            q["cond"] = ["and", q["cond"][2], q["cond"][1]]
    elif kind == "join_rel_same":
        q["root"], q["vars"] = "Holder", {"x": "Holder", "y": "Holder"}
        q["cond"] = ["cmp", "==", ["path", "x", "leaf"], ["path", "y", "other"]]
    elif kind == "join_in_or":
        # an attribute-equality join as an operand of a disjunction
        q["root"], q["vars"] = "Holder", {"x": "Holder", "y": "Tag"}
        j = ["cmp", "==", ["path", "x", "leaf"], ["path", "y", "leaf"]]
        a = gen_atom(rng, "x", "Holder", world)
        q["cond"] = ["or", j, a] if rng.random() < 0.5 else ["or", a, j]
    elif kind == "join_twice":
        # two join conditions between the same two classes
        q["root"], q["vars"] = "Holder", {"x": "Holder", "y": "Tag"}
        q["cond"] = ["and", ["cmp", "==", ["path", "x", "leaf"], ["path", "y", "leaf"]],
                     ["cmp", "==", ["path", "x", "other"], ["path", "y", "leaf"]]]
    elif kind == "value_var":
        # a variable over plain values compared with an attribute
        q["root"], q["vars"] = "Leaf", {"x": "Leaf"}
        q["value_var"] = sorted(rng.sample(range(5), rng.choice([1, 2, 3])))
        q["cond"] = ["cmp", rng.choice(["==", "<=", "!="]), ["path", "x", "n"], ["path", "k", None]]
    elif kind == "membership_rel":
        q["root"], q["vars"] = "Holder", {"x": "Holder"}
        q["cond"] = ["contains", ["path", "x", "many"], ["obj", "leaves", rng.randrange(len(world["leaves"]))]]
    elif kind == "var_eq_rel":
        q["root"], q["vars"] = "Leaf", {"x": "Leaf", "y": "Holder"}
        q["cond"] = ["cmp", "==", ["path", "x", None], ["path", "y", "leaf"]]
    elif kind == "opt_in_or":
        # a path across an Optional reference as the right side of an or_ whose left side holds for every holder that
        # has no such reference: the rows without the reference have to stay
        if rng.random() < 0.3:
            # the Optional reference is the FIRST hop of the path, a reference that is always there follows it
            q["root"], q["vars"], q["quant"] = "Top", {"x": "Top"}, "an"
            q["cond"] = ["or", ["in", ["path", "x", "uid"], ["lit", "TOPS_WITHOUT_SPARE"]],
                         ["cmp", rng.choice(CMP), ["path", "x", "spare.leaf." + rng.choice("nk")], ["lit", rng.randint(0, 4)]]]
            q["hop_after_optional"] = True
        elif rng.random() < 0.4:
            # the Optional reference is the SECOND hop of the path
            q["root"], q["vars"], q["quant"] = "Top", {"x": "Top"}, "an"
            q["cond"] = ["or", ["in", ["path", "x", "uid"], ["lit", "TOPS_WHOSE_HOLDER_HAS_NO_OTHER"]],
                         ["cmp", rng.choice(CMP), ["path", "x", "holder.other.n"], ["lit", rng.randint(0, 4)]]]
        else:
            q["root"], q["vars"], q["quant"] = "Holder", {"x": "Holder"}, "an"
            q["cond"] = ["or", ["cmp", ">=", ["path", "x", "extra"], ["lit", 0]] if rng.random() < 0.3 else ["in", ["path", "x", "uid"], ["lit", "HOLDERS_WITHOUT_OTHER"]],
                         ["cmp", rng.choice(CMP), ["path", "x", "other.n"], ["lit", rng.randint(0, 4)]]]
    elif kind == "set_of":
        # the selection is a set_of: there is no entity to fetch
        q["cond"] = gen_cond(rng, "x", cls, world, 1)
        q["quant"] = "an"
    elif kind == "select_attr":
        # the selected expression is an attribute of the variable, the answers are instances of another class
        q["root"], q["vars"], q["quant"] = "Holder", {"x": "Holder"}, "an"
        q["cond"] = gen_cond(rng, "x", "Holder", world, 1)
        q["select"] = "leaf"
    elif kind == "odd_collection":
        # literal collections that are not a flat list: a set, a tuple, a list holding a list
        q["root"], q["vars"] = "Leaf", {"x": "Leaf"}
        form = rng.choice(["set", "tuple", "nested"])
        pool = rng.sample(range(5), rng.choice([1, 2, 3]))
        q["cond"] = ["in", ["path", "x", "n"], ["lit", [pool] if form == "nested" else pool]]
        q["collection"] = form
    else:
        q["cond"] = gen_cond(rng, "x", cls, world, 1)
        q["reject"] = rng.choice(["not", "exists", "call", "index"])
    return {"world": world, "query": q}


def witnesses():
    world = {"leaves": [{"n": 1, "s": "ab", "o": None, "k": 1}, {"n": 2, "s": "b", "o": 1.0, "k": 5}, {"n": 3, "s": "abc", "o": 2.5, "k": 2}],
             "holders": [{"sub": False, "leaf": 0, "other": 1, "many": [0, 1], "extra": 1, "bonus": 0},
                         {"sub": True, "leaf": 1, "other": 2, "many": [], "extra": 2, "bonus": 1},
                         {"sub": False, "leaf": 2, "other": 0, "many": [2], "extra": 3, "bonus": 0}],
             "tags": [{"leaf": 0, "w": 1}, {"leaf": 2, "w": 3}], "tops": [{"holder": 0, "rank": 1}, {"holder": 1, "rank": 2}], "other_all": True}
    world = dict(world, leaves=[dict(l, labels=lb, s=st) for l, lb, st in zip(world["leaves"], (["ab"], ["a", "b"], []), ("A_b", "axb", "ab"))])
    siblings = dict(world, holders=[dict(world["holders"][0]), dict(world["holders"][1]), dict(world["holders"][2], sub="side")],
                    tags=[{"leaf": 0, "w": 1}, {"leaf": 1, "w": 3}], tops=[{"holder": 0, "backup": 1, "rank": 1}])
    return {
        "optional-path-inner-join": {"world": dict(world, holders=[dict(h, other=None if i == 0 else h["other"]) for i, h in enumerate(world["holders"])], other_all=False),
                                     "query": {"kind": "opt_in_or", "quant": "an", "root": "Holder", "vars": {"x": "Holder"},
                                               "cond": ["or", ["in", ["path", "x", "uid"], ["lit", "HOLDERS_WITHOUT_OTHER"]],
                                                        ["cmp", ">=", ["path", "x", "other.n"], ["lit", 0]]]}},
        "substring-translated-to-like": {"world": world, "query": {
            "kind": "single", "quant": "an", "root": "Leaf", "vars": {"x": "Leaf"}, "cond": ["contains", ["path", "x", "s"], ["lit", "_"]]}},
        "json-collection-membership-as-substring": {"world": world, "query": {
            "kind": "single", "quant": "an", "root": "Leaf", "vars": {"x": "Leaf"}, "cond": ["contains", ["path", "x", "labels"], ["lit", "a"]]}},
        "selection-or-collection-not-expressible": {"world": world, "query": {
            "kind": "select_attr", "quant": "an", "root": "Holder", "vars": {"x": "Holder"}, "select": "leaf",
            "cond": ["cmp", "==", ["path", "x", "extra"], ["lit", 1]]}},
        "call-or-index-operand-escapes": {"world": world, "query": {
            "kind": "reject", "reject": "call", "quant": "an", "root": "Leaf", "vars": {"x": "Leaf"},
            "cond": ["cmp", ">", ["path", "x", "n"], ["lit", 0]]}},
        "cross-variable-scalar-comparison-same-class": {"world": world, "query": {
            "kind": "join_scalar_same", "quant": "an", "root": "Leaf", "vars": {"x": "Leaf", "y": "Leaf"},
            "cond": ["cmp", "==", ["path", "x", "n"], ["path", "y", "k"]]}},
        "entity-operand-bound-as-parameter": {"world": world, "query": {
            "kind": "membership_rel", "quant": "an", "root": "Holder", "vars": {"x": "Holder"},
            "cond": ["contains", ["path", "x", "many"], ["obj", "leaves", 0]]}},
        "same-class-relationship-join-unaliased": {"world": world, "query": {
            "kind": "join_rel_same", "quant": "an", "root": "Holder", "vars": {"x": "Holder", "y": "Holder"},
            "cond": ["cmp", "==", ["path", "x", "leaf"], ["path", "y", "other"]]}},
        "sibling-variables-share-inherited-columns": {"world": siblings, "query": {
            "kind": "join_siblings", "quant": "an", "root": "SubHolder", "vars": {"x": "SubHolder", "y": "SideHolder"},
            "cond": ["cmp", "<", ["path", "x", "extra"], ["path", "y", "extra"]]}},
        "unselected-subclass-variable-ranges-over-its-base": {"world": siblings, "query": {
            "kind": "unselected_subclass", "quant": "an", "root": "Tag", "vars": {"x": "Tag", "y": "SideHolder"},
            "cond": ["cmp", "==", ["path", "x", "w"], ["path", "y", "extra"]]}},
        "join-between-two-unselected-classes": {"world": siblings, "query": {
            "kind": "join_unselected", "quant": "an", "root": "Top", "vars": {"x": "Top", "y": "Holder", "z": "Tag"},
            "cond": ["and", ["cmp", "==", ["path", "y", "leaf"], ["path", "z", "leaf"]], ["cmp", ">=", ["path", "x", "rank"], ["lit", 0]]]}},
        "membership-in-a-collection-holding-none": {"world": world, "query": {
            "kind": "single", "quant": "an", "root": "Leaf", "vars": {"x": "Leaf"}, "cond": ["in", ["path", "x", "o"], ["lit", [1.0, None]]]}},
    }


# ------------------------------------------------------------------ execution
def make_objects(world, sm):
    uid = iter(range(1, 10 ** 6))
    leaves = [sm.Leaf(uid=next(uid), **{**l, "labels": list(l.get("labels", []))}) for l in world["leaves"]]
    holders = []
    for h in world["holders"]:
        kw = dict(uid=next(uid), leaf=leaves[h["leaf"]], other=leaves[h["other"]] if h["other"] is not None else None,
                  many=[leaves[i] for i in h["many"]], extra=h["extra"])
        holders.append(sm.SideHolder(side=h["bonus"], **kw) if h["sub"] == "side" else sm.SubHolder(bonus=h["bonus"], **kw) if h["sub"] else sm.Holder(**kw))
    tags = [sm.Tag(uid=next(uid), leaf=leaves[t["leaf"]], w=t["w"]) for t in world["tags"]]
    tops = [sm.Top(uid=next(uid), holder=holders[t["holder"]], backup=holders[t.get("backup", t["holder"])], rank=t["rank"],
                   spare=holders[t["spare"]] if t.get("spare") is not None else None) for t in world["tops"]]
    return {"leaves": leaves, "holders": holders, "tags": tags, "tops": tops}


def build_query(q, objs, sm):
    from krrood.entity_query_language import entity as E
    from krrood.entity_query_language import symbolic as S
    from krrood.entity_query_language.quantify_entity import an, the
    import operator
    OPS = {"==": operator.eq, "!=": operator.ne, "<": operator.lt, "<=": operator.le, ">": operator.gt, ">=": operator.ge}
    doms = {"Leaf": objs["leaves"], "Holder": objs["holders"], "SubHolder": objs["holders"], "SideHolder": objs["holders"], "Tag": objs["tags"],
            "Top": objs["tops"]}
    V = {name: E.let(getattr(sm, cls), list(doms[cls]), name=name) for name, cls in q["vars"].items()}
    if q.get("value_var") is not None:
        V["k"] = E.let(int, list(q["value_var"]), name="k")

    def bt(t):
        if t[0] == "lit" and t[1] == "HOLDERS_WITHOUT_OTHER":
            return [h.uid for h in objs["holders"] if h.other is None]
        if t[0] == "lit" and t[1] == "TOPS_WHOSE_HOLDER_HAS_NO_OTHER":
            return [t_.uid for t_ in objs["tops"] if t_.holder.other is None]
        if t[0] == "lit" and t[1] == "TOPS_WITHOUT_SPARE":
            return [t_.uid for t_ in objs["tops"] if t_.spare is None]
        if t[0] == "lit":
            if q.get("collection") in ("set", "tuple") and isinstance(t[1], list):
                return set(t[1]) if q["collection"] == "set" else tuple(t[1])
            return t[1]
        if t[0] == "obj":
            return objs[t[1]][t[2]]
        if t[0] == "ipath":
            return getattr(getattr(V[t[1]], t[2])[t[3]], t[4])
        e = V[t[1]]
        if t[2]:
            for part in t[2].split("."):
                e = getattr(e, part)
        return e

    def bc(c):
        k = c[0]
        if k == "cmp":
            l, r = bt(c[2]), bt(c[3])
            if not isinstance(l, S.SymbolicExpression):
                return OPS[c[1]](l, r)      # literal on the left: python reflects the operator
            return S.Comparator(l, r, OPS[c[1]])
        if k == "in":
            return E.in_(bt(c[1]), bt(c[2]))
        if k == "contains":
            return E.contains(bt(c[1]), bt(c[2]))
        if k == "and":
            return E.and_(bc(c[1]), bc(c[2]))
        if k == "or":
            return E.or_(bc(c[1]), bc(c[2]))
        if k == "truth":
            return bt(c[1])
        raise ValueError(c)

    cond = bc(q["cond"])
    rj = q.get("reject")
    x = V["x"]
    if rj == "not":
        cond = E.not_(cond)
    elif rj == "exists":
        cond = E.exists(x, cond)
    elif rj == "call":
        path = {"Leaf": "s", "Holder": "leaf.s", "SubHolder": "leaf.s", "SideHolder": "leaf.s", "Tag": "leaf.s", "Top": "holder.leaf.s"}[q["root"]]
        e = x
        for part in path.split("."):
            e = getattr(e, part)
        cond = E.and_(cond, e.upper() == "AB")
    elif rj == "index":
        path = {"Leaf": "s", "Holder": "leaf.s", "SubHolder": "leaf.s", "SideHolder": "leaf.s", "Tag": "leaf.s", "Top": "holder.leaf.s"}[q["root"]]
        e = x
        for part in path.split("."):
            e = getattr(e, part)
        cond = E.and_(cond, e[0:1] == "a")
    if q["kind"] == "set_of":
        desc = E.set_of([x], cond)
    elif q.get("select"):
        desc = E.entity(getattr(x, q["select"]), cond)
    else:
        desc = E.entity(x, cond)
    if q.get("quantification"):
        from krrood.entity_query_language import result_quantification_constraint as RQ
        return an(desc, quantification=getattr(RQ, q["quantification"][0])(q["quantification"][1]))
    return (the if q["quant"] == "the" else an)(desc)


def skeleton(c):
    if c[0] in ("and", "or"):
        return c[0] + "(" + skeleton(c[1]) + "," + skeleton(c[2]) + ")"
    if c[0] == "cmp":
        return f"{sk_t(c[2])}{c[1]}{sk_t(c[3])}"
    if c[0] == "truth":
        return "truth(" + sk_t(c[1]) + ")"
    return c[0] + "(" + sk_t(c[1]) + "," + sk_t(c[2]) + ")"


def sk_t(t):
    if t[0] == "lit":
        return "#" + type(t[1]).__name__
    if t[0] == "obj":
        return "@obj"
    if t[0] == "ipath":
        return f"{t[1]}.{t[2]}[{t[3]}].{t[4]}"
    return f"{t[1]}.{t[2]}"


def run(case, ctx):
    from sqlalchemy.orm import Session
    from krrood.ormatic.dao import to_dao, ToDAOState
    from krrood.ormatic.utils import create_engine
    from krrood.ormatic.eql_interface import eql_to_sql, EQLTranslationError
    from krrood.entity_query_language import failures as F
    import sqlalchemy.exc
    sm, iface = ctx["sm"], ctx["iface"]
    C = ctx["counters"]
    q = case["query"]
    objs = make_objects(case["world"], sm)
    eng = create_engine("sqlite:///:memory:")
    iface.Base.metadata.create_all(eng)
    try:
        with Session(eng) as s:
            st = ToDAOState()
            for group in objs.values():
                s.add_all([to_dao(o, st) for o in group])
            s.commit()
        C["programs"] += 1
        C["kind:" + q["kind"]] += 1
        if q["quant"] == "the":
            C["the_programs"] += 1
        if q["kind"].startswith("join"):
            C["join_programs"] += 1
        if any("." in (t[2] or "") for t in _paths(q["cond"])):
            C["path_programs"] += 1
        # in-memory world
        mem_exc = None
        try:
            res = build_query(q, objs, sm).evaluate()
            if q["kind"] == "set_of":
                res = [list(row.values())[0] for row in res]
            mem = {res.uid} if q["quant"] == "the" else {o.uid for o in res}
        except (F.NoSolutionFound, F.MultipleSolutionFound) as e:
            mem, mem_exc = None, type(e).__name__
        except (F.LessThanExpectedNumberOfSolutions, F.GreaterThanExpectedNumberOfSolutions) as e:
            mem, mem_exc = None, type(e).__name__
        except Exception as e:
            ctx_reset()
            C["memory_evaluation_raises:" + type(e).__name__] += 1
            return {"status": "skip"}
        # SQL world
        key_hint = {"join_scalar_same": "cross-variable-scalar-comparison-same-class",
                    "join_rel_same": "same-class-relationship-join-unaliased",
                    "membership_rel": "entity-operand-bound-as-parameter",
                    "join_in_or": "join-inside-disjunction", "join_twice": "second-join-condition-dropped",
                    "value_var": "value-variable-first-value-only",
                    "var_eq_rel": "entity-operand-bound-as-parameter"}.get(q["kind"])
        with Session(eng) as s2:
            try:
                tr = eql_to_sql(build_query(q, objs, sm), s2)
                rows = tr.evaluate()
                sql = {rows.uid} if q["quant"] == "the" else {r.uid for r in rows}
                sql_exc = None
            except EQLTranslationError as e:
                C["rejected"] += 1
                C["reject:" + type(e).__name__] += 1
                return {"status": "ok", "nontrivial": False, "shape": "REJECT:" + str(q.get("reject")) + skeleton(q["cond"])}
            except (sqlalchemy.exc.NoResultFound, sqlalchemy.exc.MultipleResultsFound) as e:
                sql, sql_exc = None, type(e).__name__
            except Exception as e:
                ctx_reset()
                C["foreign_exception:" + type(e).__name__] += 1
                if q.get("reject") in ("call", "index") and key_hint is None:
                    key_hint = "call-or-index-operand-escapes"
                return {"status": "fail", "kind": "foreign-exception:" + type(e).__name__, "key": key_hint,
                        "detail": f"{q['kind']} {skeleton(q['cond'])}: {type(e).__name__}: {e}"[:400]}
        C["accepted"] += 1
        C["accepted:" + q["kind"]] += 1
        if q.get("reject"):
            # accepted although it contains a construct outside the translator's vocabulary: must still agree
            C["accepted_with_untranslatable_construct"] += 1
        C["results_compared"] += 1
        problems = []
        pairs = {"NoSolutionFound": "NoResultFound", "MultipleSolutionFound": "MultipleResultsFound",
                 "LessThanExpectedNumberOfSolutions": "<no counterpart>", "GreaterThanExpectedNumberOfSolutions": "<no counterpart>"}
        if (mem_exc is None) != (sql_exc is None) or (mem_exc and pairs[mem_exc] != sql_exc):
            problems.append(f"the(): in memory {mem_exc or sorted(mem)}, in SQL {sql_exc or sorted(sql)}")
        elif mem_exc is None and mem != sql:
            problems.append(f"in memory {sorted(mem)} != SQL {sorted(sql)} (only memory {sorted(mem - sql)[:5]}, only SQL {sorted(sql - mem)[:5]})")
        if problems:
            return {"status": "fail", "kind": "silent-divergence", "key": key_hint,
                    "detail": f"{q['kind']} {q['quant']} {q['root']} {skeleton(q['cond'])}: " + "; ".join(problems),
                    "obs": {"sql": str(getattr(tr, 'sql_query', ''))[:500]}}
        n_root = len({"Leaf": objs["leaves"], "Holder": objs["holders"], "SubHolder": [h for h in objs["holders"] if isinstance(h, sm.SubHolder)],
                      "SideHolder": [h for h in objs["holders"] if isinstance(h, sm.SideHolder)],
                      "Tag": objs["tags"], "Top": objs["tops"]}[q["root"]])
        return {"status": "ok", "nontrivial": mem is not None and 0 < len(mem) < n_root,
                "shape": q["quant"] + ":" + q["root"] + ":" + skeleton(q["cond"]),
                "obs": {"rows": None if mem is None else len(mem), "sql": str(tr.sql_query)[:300]}}
    finally:
        eng.dispose()


def _paths(c):
    if c[0] in ("and", "or"):
        return _paths(c[1]) + _paths(c[2])
    return [t for t in c[1:] if isinstance(t, list) and t and t[0] == "path"]


def ctx_reset():
    from krrood.entity_query_language import symbolic as S
    S.SymbolicExpression._symbolic_expression_stack_.clear()
