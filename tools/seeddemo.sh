#!/bin/sh
# usage: demo.sh <id>: run the seed's demonstration against the patched current tree
id=$1
S=$(mktemp -d /tmp/krrood-try-XXXX); mkdir -p $S/r; cp -r /repo/src $S/r/src
(cd $S/r && git init -q . && git apply /verif/seeded/$id/patch.diff) || { echo "$id patch failed"; rm -rf $S; exit 3; }
demo=$(ls /verif/seeded/$id/demo*.py /verif/seeded/$id/demonstration*.py 2>/dev/null | head -1)
cd /verif/seeded/$id && PYTHONPATH=$S/r/src:/repo /venv/bin/python $demo > $S/out.txt 2>&1; rc=$?
echo "$id demo rc=$rc: $(grep -v 'conda.cli\|SyntaxWarning\|"""' $S/out.txt | tail -2 | tr '\n' ' ' | cut -c1-250)"
rm -rf $S
