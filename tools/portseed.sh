#!/bin/sh
# usage: port.sh <seed id>: re-create seeded/<id>/patch.diff against the current /repo tree (fuzzy apply)
id=$1
S=$(mktemp -d /tmp/krrood-port-XXXX)
mkdir -p $S/r; cp -r /repo/src $S/r/src
cd $S/r && git init -q . && git add -A && git -c user.email=a@b -c user.name=x commit -q -m base
if git apply --check /verif/seeded/$id/patch.diff 2>/dev/null; then echo "$id applies"; rm -rf $S; exit 0; fi
if patch -p1 -F3 --no-backup-if-mismatch -s < /verif/seeded/$id/patch.diff >/dev/null 2>&1 && [ -z "$(find . -name '*.rej')" ]; then
  find . -name '*.orig' -delete
  git diff > $S/new.diff
  [ -f /verif/seeded/$id/patch.orig.diff ] || cp /verif/seeded/$id/patch.diff /verif/seeded/$id/patch.orig.diff
  cp $S/new.diff /verif/seeded/$id/patch.diff
  echo "$id ported"
else
  echo "$id REJECT"
fi
rm -rf $S
