#!/bin/sh
# usage: trypatch.sh <patch.diff> <check> [args]  -- applies patch to scratch copy of /repo/src and runs the check on it
P=$1; shift
S=$(mktemp -d /tmp/krrood-try-XXXX)
mkdir -p $S/r; cp -r /repo/src $S/r/src
(cd $S/r && git init -q . && git apply $P) || { echo "patch failed"; rm -rf $S; exit 3; }
cd /verif && VERIF_KRROOD_SRC=$S/r/src ./vcheck "$@" 2>&1 | grep -v "^KNOWN-FINDING\|^note:" | cut -c1-400 | head -12
rm -rf $S
cd /verif && git checkout -q evidence/ 2>/dev/null
