#!/usr/bin/env python3
"""Regenerates MANIFEST.json from the table below and validates it against the schema."""
import json
import os
import sys

VERIF = os.path.dirname(os.path.dirname(os.path.abspath(__file__)))

CHECKS = {
    # id: (category, technique, level text, level note, design ref)
    "C01": ("exploration", "runtime reference-model monitor: real EQL evaluation vs brute-force first-order oracle over the domain product (row sets), counterfactual classification of listed findings",
            "random and (thorough) exhaustively enumerated query specs are built through the public API and evaluated on the real engine; the returned row set must equal the set computed by an independent evaluator over the Cartesian product of the type-filtered domains",
            "readings of exists/for_all fixed in DESIGN.md section 3; only executions produced are decided; listed findings are recognised by mechanism (features + counterfactual oracle), anything else is a violation", "4/C01"),
    "C02": ("exploration", "runtime reference-model monitor: multiset comparison with the brute-force oracle in the conjunctive/else-if fragment + the()/count-constraint outcomes on fresh builds",
            "queries of the negation-normal conjunctive / else-if fragment are evaluated on the real engine and the multiset of rows must equal one row per satisfying assignment; the() and Exactly/AtMost/AtLeast constraints must see the true count",
            "fragment membership is decided on the spec; empty domains give no rows under the total-assignment reading", "4/C02"),
    "C18": ("exploration", "runtime monitor: generated values pushed through to_json -> json.dumps -> json.loads -> from_json, structural equality + exact-type + tag oracle",
            "random recursive values over the whole vocabulary of the statement are round-tripped through real JSON text; equality is NaN-aware and type-exact at every position, and every object dict must carry its fully qualified tag",
            "harness-owned serialisable classes (4-level hierarchy) and a registered third-party type; tuples/sets/dicts not generated", "4/C18"),
    "C19": ("fault_enumeration", "runtime fault enumeration: every malformed / unresolvable tag value of an explicit list plus random dotted names is fed to the real from_json; oracle = exception class",
            "the enumerated tag faults (every JSON type, dots, modules, functions, type variables, constants, failing imports) are all executed and must raise a JSONSerializationError subclass; random dotted names extend the list",
            "tags that an independent resolver finds valid are skipped; import failures other than ImportError are outside the enumeration", "4/C19"),
    "C03": ("exploration", "runtime schedule exploration from the client boundary: random and (thorough) exhaustively enumerated interleavings of next()/drain/abandon/raise over several live evaluation iterators; oracle = the same build evaluated alone",
            "query sets with every sharing pattern are driven under sequential and interleaved schedules (all interleavings of two iterators with <=7 steps in the thorough tier); every iterator must yield exactly (a prefix of, when abandoned) what a freshly built identical query yields alone",
            "single-threaded interleavings of generator steps only (krrood has no threads); reference and scheduled build run under the same PYTHONHASHSEED", "4/C03"),
    "C08": ("exploration", "runtime reference-model monitor: rule trees written through the with-block API vs a ripple-down-rules interpreter applied to every binding of the domain product",
            "random rule trees (and, thorough, every tree shape with <=4 branches) are built on the real API and evaluated; the inferred instances (branch tag + binding identities) must equal the interpreter's",
            "interpreter readings listed under assumptions in the evidence; two listed findings are recognised by tree features", "4/C08"),
    "C10": ("exploration", "runtime event-log monitor: instrumented domains / properties / predicates write a totally ordered log; offline prefix and bound checker",
            "every domain is a logging one-shot generator and every user attribute / method / predicate logs; the checker demands an empty log at construction, prefix logs and prefix results for every k, and absolute pull bounds for single-variable and nested two-variable queries",
            "one element of look-ahead per domain tolerated; event identity is by object name", "4/C10"),
    "C11": ("exploration", "runtime reference-model monitor: entity_matching patterns vs a direct Python predicate over the domain elements",
            "random nested patterns over a Symbol model are evaluated on the real engine and the returned set of elements (and the consistency of selected inner parts) is compared with a predicate derived from the pattern spec",
            "set comparison; readings of literal-on-collection / match_any / match_all as stated in the property", "4/C11"),
    "C12": ("exploration", "runtime event-log monitor + complete enumeration of call shapes: body call log vs candidate bindings, results vs concrete filtering",
            "every (kind, arity, defaults, positional/keyword x variable/concrete/omitted) call shape is executed: concrete calls must run once and return the plain result, symbolic calls must not run at construction, and during evaluation the body must be called once per candidate binding with each parameter holding the argument written in that position",
            "distinct variables per parameter; the predicate is the only condition of the query", "4/C12"),
    "C13": ("exploration", "runtime census monitor over random histories: weak-reference census vs results of domain-less queries, structural invariant of the registry at quiescent points",
            "histories of create / drop / gc / relate / query / re-evaluate / forget / clear are executed on the real registry; after every query the returned instances must equal the harness census of live instances of the type (each once)",
            "instances created before a clear() are don't-care; reclaiming requires the harness to empty krrood's query registries (C20's finding) in the 'forget' step", "4/C13"),
    "C14": ("exploration", "runtime differential history monitor: same assertion suffix with and without a garbage-producing prefix + audit of the relation index after every sweep",
            "each case runs the assertion suffix on a clean graph and after a prefix that creates, relates, drops and sweeps instances (recycling node indices and ids); relations and field values by object name must be equal, and every indexed relation must be an edge between live nodes",
            "run A on a cleared graph stands for a fresh process; the index audit reads internals when present", "4/C14"),
    "C15": ("exploration", "runtime reference-model monitor: fields and graph relations vs a fix-point closure of the asserted facts, all permutations of a bank of fact sets",
            "fact sets are asserted in every order (bank, exhaustively) and in random orders/forms; managed fields and SymbolGraph relations must equal the reference closure (sub-property, inverse, transitive, role taker) and agree with each other",
            "monotone workloads only; single-valued fields with several derivable values compared by membership", "4/C15"),
    "C16": ("exploration", "runtime reference-model monitor: every write form applied in lock-step to the managed field and to a plain list/set; relations vs the closure oracle",
            "random sequences of all eleven write forms run on a managed list and set field; after each operation the contents must equal the Python model (order, multiplicity) and finally every element ever written must carry its relations and inverse memberships",
            "the owner has no other relations, so no inferred element can enter the written field; several PYTHONHASHSEEDs", "4/C16"),
    "C20": ("exploration", "runtime census monitor with counterfactual ablation + generic size series of krrood-held containers over k/2k/4k iterations",
            "histories create, relate, query and drop instances; weak references must die, nothing may remain in a fresh domain-less query or in the graph's bookkeeping after the sweep, and no krrood-held container (discovered generically) may grow with the iteration count; survivors are attributed by emptying the known query registries",
            "histories without queries are checked strictly; with queries the listed retention finding is recognised only when the survivors die after the ablation", "4/C20"),
    "C04": ("exploration", "runtime reference-model monitor: graph-isomorphism (bisimulation with identity classes) between random object graphs and from_dao(to_dao(graph)) over freshly generated ORM models",
            "generated models (interface generated from the current tree per model, one subprocess each) and a hand-written model with alternative mappings / custom column type are fed thousands of random object graphs with sharing, cycles, None, empty collections, subclass instances and extreme scalars; the round-tripped graph must be isomorphic with aliasing preserved and distinct objects kept distinct, also when two roots share the conversion states",
            "graph generator is driven by the model spec; underscore fields not compared", "4/C04"),
    "C05": ("exploration", "runtime monitor: DB round trip through a second Session + conservation check on the ORM after_insert event log and per-table row counts",
            "the same models and graphs are committed to a fresh SQLite database and reloaded in a new Session through every DAO class of the root's chain; from_dao must be isomorphic (collections as sets paired by uid), every distinct object is inserted exactly once and row counts per table match the object counts",
            "in-memory SQLite created by krrood's create_engine; list order / duplicate entries and the sign of zero are not compared", "4/C05"),
    "C07": ("translation_validation", "runtime translation validation: each generated EQL program is translated by eql_to_sql, executed on SQLite holding the persisted objects, and compared with in-memory evaluation of an identical query",
            "random programs over the translatable fragment (and constructs outside it, to observe rejection) are validated one by one on random database contents: same uid set, same the() failure, rejection only via EQLTranslationError",
            "per-program validation on concrete data, not a proof of the translator; NULL-sensitive comparisons and Optional paths restricted as listed in the evidence assumptions", "4/C07"),
    "C06": ("exploration", "runtime monitor: generated model sources pushed through the real ORMatic pipeline in one subprocess each (generate, import, configure_mappers, create_all), mapper inspection vs expectations from the model spec, cross-process determinism",
            "random models over the documented grammar are generated from the current tree; the module must import, mappers configure and the schema be created; every class must have its DAO with the right base, a column per public scalar/enum/JSON/type field, a relationship per reference/collection, nothing for underscore fields; two generations under different PYTHONHASHSEEDs must be byte-identical",
            "expectations come from the generator's own spec of the model; only documented constructs are generated", "4/C06"),
    "C17": ("exploration", "runtime reference-model monitor + icontract snapshot/ensure contracts: diagrams of generated models vs an independent typing.get_type_hints analysis; diagram snapshot before/after every derived-view / read-only call",
            "random models (single-module and split modules with TYPE_CHECKING-only imports) and random class sub-sets are diagrammed; nodes, direct-base inheritance edges, association edges and per-field classification flags must equal the independent analysis, and contracts on ten read-only methods assert the (nodes, typed edges) snapshot is unchanged",
            "_build_rxnode_tree cannot run with the rustworkx_utils of this environment (counted as unavailable); internals _dependency_graph is read for the snapshot", "4/C17"),
    "C09": ("exploration", "runtime monitor: sequential-spec oracle over an exhaustively enumerated (n, constraint) space + icontract post-conditions on the constraint classes",
            "every (solution count n<=N, constraint, bounds around n, selector, domain kind) combination is executed on the real engine and the observed (yielded prefix, exception class) is compared with the sequential specification; contracts watch assert_satisfaction on every call",
            "the harness controls n by construction; exploration is bounded by N (6 quick / 10 thorough + random n<=60)", "4/C09"),
}

PENDING_REASON = "check not built yet in this session (planned, see DESIGN.md section 4)"


def main():
    props = [json.loads(l)["id"] for l in open(os.path.join(VERIF, "properties.jsonl"))]
    checks = []
    for pid in props:
        if pid not in CHECKS:
            continue
        cat, tech, text, note, ref = CHECKS[pid]
        checks.append({
            "property_id": pid,
            "quick_cmd": f"./vcheck {pid} --tier quick",
            "thorough_cmd": f"./vcheck {pid} --tier thorough",
            "evidence_file": f"evidence/{pid}.json",
            "replay_cmd_template": f"./vcheck {pid} --replay {{path}}",
            "engine": "vlib",
            "level_claimed": {"category": cat, "text": text, "design_ref": f"DESIGN.md section {ref}"},
            "level_note": note,
            "technique": tech,
        })
    man = {
        "version": 1,
        "setup_cmd": "/venv/bin/python -m pip install --quiet --no-index --find-links /opt/veriftools/wheels --target .deps icontract deal",
        "hooks": {
            "guard": "CODE_IAI_KRROOD_VERIF",
            "enable": "no in-tree hooks: every monitor is attached at run time from /verif (wrappers, icontract, sys.monitoring); workers import /repo/src through the editable install",
            "baseline_off_cmd": "cd /repo && env -u CODE_IAI_KRROOD_VERIF /venv/bin/python -m pytest -ra -q -p no:cacheprovider --timeout=900 --continue-on-collection-errors",
            "source_commits": [],
            "add_only": True,
        },
        "engines": [
            {"name": "vlib", "path": "vlib/", "serves_properties": sorted(CHECKS),
             "kind_free_text": "sharded worker processes driving the real krrood API with generated cases; reference-model, event-log, invariant-hook and census monitors; three-valued verdicts"},
        ],
        "checks": checks,
        "notes": "Runtime monitoring only. exit 0 = held on everything explored (KNOWN-FINDING lines for listed defects), exit 1 = VIOLATION, exit 2 = INCONCLUSIVE (monitor not reached / worker crashed).",
        "not_applicable": [{"property_id": p, "reason": PENDING_REASON} for p in props if p not in CHECKS],
    }
    path = os.path.join(VERIF, "MANIFEST.json")
    json.dump(man, open(path, "w"), indent=1)
    try:
        import jsonschema
        jsonschema.validate(man, json.load(open("/root/.vp/MANIFEST.schema.json")))
        print("MANIFEST.json valid;", len(checks), "checks")
    except ImportError:
        print("jsonschema missing; wrote MANIFEST.json unvalidated")


if __name__ == "__main__":
    main()
