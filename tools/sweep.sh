#!/bin/sh
# usage: tools/sweep.sh "<ids>" "<seeds>" [tier]   -- runs every check for every seed, prints one line per run
cd "$(dirname "$0")/.." || exit 2
tier=${3:-quick}
for id in $1; do
  for seed in $2; do
    out=$(./vcheck "$id" --tier "$tier" --seed "$seed" 2>&1); rc=$?
    echo "$id seed=$seed rc=$rc $(echo "$out" | grep -E "^$id tier" | cut -c1-160)"
    if [ $rc -ne 0 ]; then echo "$out" | grep -E "VIOLATION|INCONCLUSIVE|kind=" | head -6 | cut -c1-400; fi
  done
done
