#!/bin/sh
id=$(basename $1); prop=$(echo $id | cut -c1-3)
out=$(sh /verif/tools/trypatch.sh /verif/seeded/$id/patch.diff $prop 2>&1)
n=$(echo "$out" | grep -c "VIOLATION")
first=$(echo "$out" | grep -A1 "VIOLATION" | sed -n 2p | cut -c1-160)
echo "$id viol_lines=$n $first"
