#!/usr/bin/env python3
"""Evaluate an independently written breaking change (seed).

usage: tools/seedeval.py <ID> <seed dir with patch.diff + demo.py> [--checks C01,C02] [--tier quick] [--skip-tests]
Applies patch.diff to a fresh scratch worktree of /repo HEAD (under /tmp), confirms (a) the repository suite still has
its 132 passes, (b) the demonstration passes without and fails with the change, then runs the named checks against
the patched sources (VERIF_KRROOD_SRC) and prints / returns the verdicts.  The worktree is removed afterwards."""
import json
import os
import re
import shutil
import subprocess
import sys
import tempfile

VERIF = os.path.dirname(os.path.dirname(os.path.abspath(__file__)))


def sh(cmd, **kw):
    return subprocess.run(cmd, shell=isinstance(cmd, str), capture_output=True, text=True, **kw)


def run_demo(wt, demo):
    env = dict(os.environ, PYTHONPATH=f"{wt}/src:{wt}", PYTHONDONTWRITEBYTECODE="1")
    src = open(demo).read()
    if "__main__" not in src and re.search(r"^def test_", src, re.M):
        r = sh(["/venv/bin/python", "-m", "pytest", "-q", "-p", "no:cacheprovider", "-x", demo], cwd=wt, env=env, timeout=900)
    else:
        r = sh(["/venv/bin/python", demo], cwd=wt, env=env, timeout=900)
    return r.returncode, (r.stdout + r.stderr)[-400:]


def main():
    pid, seed_dir = sys.argv[1], os.path.abspath(sys.argv[2])
    checks = [pid]
    tier = "quick"
    skip_tests = "--skip-tests" in sys.argv
    for i, a in enumerate(sys.argv):
        if a == "--checks":
            checks = sys.argv[i + 1].split(",")
        if a == "--tier":
            tier = sys.argv[i + 1]
    wt = tempfile.mkdtemp(prefix=f"seedwt-{pid}-")
    os.rmdir(wt)
    out = {"property": pid, "seed_dir": seed_dir}
    try:
        r = sh(["git", "-C", "/repo", "worktree", "add", "--detach", wt, "HEAD"])
        assert r.returncode == 0, r.stderr
        demo = os.path.join(wt, "seed_demo.py")
        shutil.copy(os.path.join(seed_dir, "demo.py"), demo)
        rc0, tail0 = run_demo(wt, demo)
        out["demo_without_change"] = {"rc": rc0, "tail": tail0[-200:]}
        r = sh(["git", "-C", wt, "apply", os.path.join(seed_dir, "patch.diff")])
        out["patch_applies"] = r.returncode == 0
        if r.returncode != 0:
            out["patch_error"] = r.stderr[-300:]
            print(json.dumps(out, indent=1))
            return 2
        rc1, tail1 = run_demo(wt, demo)
        out["demo_with_change"] = {"rc": rc1, "tail": tail1[-300:]}
        if not skip_tests:
            env = dict(os.environ, PYTHONPATH=f"{wt}/src")
            t = sh(["/venv/bin/python", "-m", "pytest", "-q", "-p", "no:cacheprovider", "--timeout=900", "test"], cwd=wt, env=env, timeout=1800)
            out["suite_with_change"] = (t.stdout.strip().splitlines() or ["?"])[-1]
        out["checks"] = {}
        for c in checks:
            env = dict(os.environ, VERIF_KRROOD_SRC=f"{wt}/src")
            r = sh([os.path.join(VERIF, "vcheck"), c, "--tier", tier], env=env, timeout=7200)
            first = next((l.strip() for l in r.stdout.splitlines() if l.startswith("  kind=")), "")
            out["checks"][c] = {"rc": r.returncode, "verdict": "fired" if r.returncode == 1 else "silent" if r.returncode == 0 else "inconclusive",
                                "first_violation": first[:300],
                                "summary": next((l for l in r.stdout.splitlines() if l.startswith(c + " tier")), "")}
        print(json.dumps(out, indent=1))
        return 0
    finally:
        sh(["git", "-C", "/repo", "worktree", "remove", "--force", wt])
        shutil.rmtree(wt, ignore_errors=True)
        sh(["git", "-C", "/repo", "worktree", "prune"])
        # the evidence file was rewritten by a run against a mutated tree: the caller re-runs the check on /repo


if __name__ == "__main__":
    sys.exit(main())
