#!/usr/bin/env python3
"""Run every archived defect script of the independent defect hunt (hunts/<Prop>/defectN.py) against /repo's current
sources and write hunts/STATUS.md: exit code 0 = the script no longer shows its defect, 1 = it still does.
The scripts were written by sub-agents that saw only the property text and a scratch worktree."""
import glob
import os
import re
import subprocess
import sys
from concurrent.futures import ThreadPoolExecutor

VERIF = os.path.dirname(os.path.dirname(os.path.abspath(__file__)))


def first_doc_line(path):
    src = open(path, encoding="utf-8", errors="replace").read()
    m = re.search(r'"""\s*(.*?)"""', src, re.S)
    text = " ".join((m.group(1) if m else "").split())
    return text[:150]


def run(path):
    env = dict(os.environ, PYTHONPATH="/repo/src:/repo", PYTHONDONTWRITEBYTECODE="1", PYTHONHASHSEED="0")
    try:
        r = subprocess.run(["/venv/bin/python", path], cwd=os.path.dirname(path), env=env, capture_output=True, text=True, timeout=180)
        return r.returncode
    except subprocess.TimeoutExpired:
        return "timeout"


def main():
    hunt_dir = sys.argv[1] if len(sys.argv) > 1 else "hunts"   # "hunts" (round 1) or "hunts2" (round 2)
    paths = sorted(glob.glob(os.path.join(VERIF, hunt_dir, "C*", "defect*.py")),
                   key=lambda p: (p.split(os.sep)[-2], int(re.findall(r"\d+", os.path.basename(p))[0])))
    with ThreadPoolExecutor(max_workers=4) as ex:
        rcs = list(ex.map(run, paths))
    lines = ["# Independent defect hunt: status of every reported script on the current /repo tree", "",
             "rc 1 = still reproduces, rc 0 = no longer reproduces (repaired, see known-findings.txt `fixed:` lines).", "",
             "| Prop | script | rc | what the script shows (from its docstring) |", "|---|---|---|---|"]
    summary = {}
    for p, rc in zip(paths, rcs):
        prop = p.split(os.sep)[-2]
        summary.setdefault(prop, [0, 0])
        summary[prop][0 if rc == 0 else 1] += 1
        lines.append(f"| {prop} | {os.path.basename(p)} | {rc} | {first_doc_line(p).replace('|', '/')} |")
    lines += ["", "| Prop | no longer reproduces | still reproduces |", "|---|---|---|"]
    for prop, (ok, bad) in sorted(summary.items()):
        lines.append(f"| {prop} | {ok} | {bad} |")
    open(os.path.join(VERIF, hunt_dir, "STATUS.md"), "w").write("\n".join(lines) + "\n")
    print("\n".join(lines[-(len(summary) + 2):]))


if __name__ == "__main__":
    sys.exit(main())
