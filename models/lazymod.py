"""a module with a lazy module-level __getattr__ whose lookup fails with something other than AttributeError"""


def __getattr__(name):
    if name.startswith("__"):
        raise AttributeError(name)
    raise KeyError(f"no lazily importable attribute {name}")
