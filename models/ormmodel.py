"""Hand-written mapped model for C04/C05: the parts of the documented grammar the model generator
does not produce - alternative mappings (stand-alone, as collection element, as parent of a
normally mapped subclass), a custom TypeDecorator column, three levels of inheritance, mutual
references, two collections of one target."""
from __future__ import annotations

from dataclasses import dataclass, field
from datetime import datetime
from enum import Enum

from sqlalchemy import TypeDecorator, types
from typing_extensions import Dict, List, Optional, Self, Set, Type

from krrood.ormatic.dao import AlternativeMapping, T


class Color(Enum):
    R = "r"
    G = "g"
    B = "b"


class Money:
    """a value type persisted through a custom column type"""

    def __init__(self, cents: int):
        self.cents = cents

    def __eq__(self, other):
        return type(other) is Money and other.cents == self.cents

    def __hash__(self):
        return hash(self.cents)

    def __repr__(self):
        return f"Money({self.cents})"


class MoneyType(TypeDecorator):
    impl = types.String(64)
    cache_ok = True

    def process_bind_param(self, value, dialect):
        return None if value is None else f"{value.cents}c"

    def process_result_value(self, value, dialect):
        return None if value is None else Money(int(value[:-1]))


@dataclass(eq=False)
class Vec:
    """alternatively mapped: carries a field ORMatic cannot map"""
    uid: int = 0
    x: float = 0.0
    y: float = 0.0
    cache: Dict[str, int] = field(default_factory=dict)


@dataclass
class VecMapping(AlternativeMapping[Vec]):
    uid: int
    x: float
    y: float

    @classmethod
    def create_instance(cls, obj: Vec) -> Self:
        return cls(obj.uid, obj.x, obj.y)

    def create_from_dao(self) -> Vec:
        return Vec(self.uid, self.x, self.y)


@dataclass(eq=False)
class Pin:
    """alternatively mapped AND part of reference cycles (Item.pin <-> Pin.host)"""
    uid: int = 0
    host: Optional[Item] = None
    note: Dict[str, int] = field(default_factory=dict)


@dataclass
class PinMapping(AlternativeMapping[Pin]):
    uid: int
    host: Optional[Item]

    @classmethod
    def create_instance(cls, obj: Pin) -> Self:
        return cls(obj.uid, obj.host)

    def create_from_dao(self) -> Pin:
        return Pin(self.uid, self.host)


@dataclass(eq=False)
class Item:
    uid: int = 0
    n: int = 0
    price: Optional[Money] = None
    holder: Optional[Holder] = None
    spot: Optional[Vec] = None
    pin: Optional[Pin] = None


@dataclass(eq=False)
class Holder:
    uid: int = 0
    main: Item = None
    items: List[Item] = field(default_factory=list)
    spare: List[Item] = field(default_factory=list)
    vecs: List[Vec] = field(default_factory=list)
    kind: Type[Base0] = None
    color: Color = Color.R


@dataclass(eq=False)
class Base0:
    uid: int = 0
    label: str = ""
    tags: List[str] = field(default_factory=list)
    when: datetime = field(default_factory=lambda: datetime(2020, 1, 1))
    opt: Optional[float] = None


@dataclass(eq=False)
class Mid(Base0):
    owner: Optional[Holder] = None
    budget: Optional[Money] = None


@dataclass(eq=False)
class Leaf(Mid):
    things: List[Item] = field(default_factory=list)
    where: Optional[Vec] = None


@dataclass(eq=False)
class Port:
    """refers back to the shape whose `ports` (declared on the alternatively mapped base) hold it"""
    uid: int = 0
    shape: Optional[ShapeBase] = None
    stamp: Optional[Stamp] = None
    """back to the (frozen) stamp whose marks hold the port: a cycle through an object that cannot be assigned to"""


@dataclass(eq=False)
class ShapeBase:
    """alternatively mapped parent of a normally mapped subclass; declares a relationship of its own"""
    uid: int = 0
    name: str = ""
    turn: int = 0
    ports: List[Port] = field(default_factory=list)
    meta: Dict[str, int] = field(default_factory=dict)


@dataclass
class ShapeBaseMapping(AlternativeMapping[ShapeBase]):
    """stores `name` under another field name: a subclass DAO has to get it back through the parent mapping; `turn`
    keeps its name but is stored in another encoding (lowest bit flipped), and `ports` are stored in reversed order, so they have to pass through the mapping in both directions"""
    uid: int
    label: str
    turn: int
    ports: List[Port]

    @classmethod
    def create_instance(cls, obj: ShapeBase) -> Self:
        return cls(obj.uid, "L:" + obj.name, obj.turn ^ 1, list(reversed(obj.ports)))

    def create_from_dao(self) -> ShapeBase:
        return ShapeBase(self.uid, self.label[2:], self.turn ^ 1, list(reversed(self.ports)))


@dataclass(eq=False, frozen=True)
class Stamp:
    """a frozen dataclass with references (no reference leads back to it: a frozen object cannot be part of a cycle)"""
    uid: int = 0
    where: Optional[Vec] = None
    marks: List[Port] = field(default_factory=list)
    text: str = ""


@dataclass(eq=False)
class Sheet:
    """several shapes (instances of the alternatively mapped class and of its normally mapped subclass) in one graph"""
    uid: int = 0
    shapes: List[ShapeBase] = field(default_factory=list)
    stamp: Optional[Stamp] = None


@dataclass(eq=False)
class Circle(ShapeBase):
    r: float = 0.0
    center: Optional[Vec] = None


@dataclass(eq=False)
class Ring(Circle):
    """grandchild of the alternatively mapped class"""
    thick: float = 0.0


@dataclass(eq=False)
class Square(ShapeBase):
    """a sub-class of the alternatively mapped class that is alternatively mapped itself; its mapping derives from the
    mapping of its parent (the ParentBaseMapping / ChildBaseMapping pattern)"""
    side: int = 0


@dataclass
class SquareMapping(ShapeBaseMapping, AlternativeMapping[Square]):
    side: int = 0

    @classmethod
    def create_instance(cls, obj: Square) -> Self:
        return cls(obj.uid, "L:" + obj.name, obj.turn ^ 1, list(reversed(obj.ports)), obj.side ^ 1)

    def create_from_dao(self) -> Square:
        return Square(self.uid, self.label[2:], self.turn ^ 1, list(reversed(self.ports)), side=self.side ^ 1)


@dataclass(eq=False)
class Tile(Square):
    """a normally mapped class below the two mappings"""
    glaze: str = ""


VERIF_CLASSES = [Vec, Pin, Item, Holder, Base0, Mid, Leaf, Port, ShapeBase, Circle, Sheet, Ring, Square, Tile]
VERIF_ORMATIC = {"alternative_mappings": [VecMapping, PinMapping, ShapeBaseMapping, SquareMapping], "type_mappings": {Money: MoneyType}}
