"""Harness mapped model for the EQL -> SQL translation check (C07)."""
from __future__ import annotations

from dataclasses import dataclass, field

from typing_extensions import List, Optional


@dataclass(eq=False)
class Root:
    """a mapped class without fields at the top of every hierarchy (as Symbol is in models built on krrood)"""


@dataclass(eq=False)
class Leaf(Root):
    uid: int = 0
    n: int = 0
    s: str = ""
    o: Optional[float] = None
    k: int = 0
    labels: List[str] = field(default_factory=list)
    p: Optional[float] = None

    def __repr__(self):
        return f"Leaf#{self.uid}"


@dataclass(eq=False)
class Holder(Root):
    uid: int = 0
    leaf: Leaf = None
    other: Optional[Leaf] = None
    many: List[Leaf] = field(default_factory=list)
    extra: int = 0

    def __repr__(self):
        return f"{type(self).__name__}#{self.uid}"


@dataclass(eq=False, repr=False)
class SubHolder(Holder):
    bonus: int = 0


@dataclass(eq=False, repr=False)
class SideHolder(Holder):
    """a sibling of SubHolder: both keep the inherited fields in the table of Holder"""
    side: int = 0


@dataclass(eq=False)
class Tag(Root):
    uid: int = 0
    leaf: Leaf = None
    w: int = 0

    def __repr__(self):
        return f"Tag#{self.uid}"


@dataclass(eq=False)
class Top(Root):
    uid: int = 0
    holder: Holder = None
    backup: Holder = None
    rank: int = 0
    spare: Optional[SubHolder] = None

    def __repr__(self):
        return f"Top#{self.uid}"


VERIF_CLASSES = [Root, Leaf, Holder, SubHolder, SideHolder, Tag, Top]
