"""Harness model for the JSON checks (C18/C19): a 4-level SubclassJSONSerializer hierarchy with
nested serialisable fields and a registered third-party type."""
from __future__ import annotations

import abc
import collections
import decimal
import enum
import fractions
import uuid
from dataclasses import dataclass, field
from typing import Any, List, TypeVar

from krrood.adapters.json_serializer import (JSONSerializableTypeRegistry, SubclassJSONSerializer, from_json, to_json,
                                             JSON_TYPE_NAME)

TV = TypeVar("TV")
CONSTANT = 42


def a_function():
    return 1


class NotSerializable:
    pass


class NoFromJson(SubclassJSONSerializer):
    """a serialisable class that does not say how it is created from json"""


class ForgotClassMethod(SubclassJSONSerializer):
    """_from_json written as a plain function: it cannot be called on the class"""

    def _from_json(cls, data, **kwargs):
        return cls()


class StaticWithClassParameter(SubclassJSONSerializer):
    """the wrong decorator: a static method written with a class parameter cannot take the document"""

    @staticmethod
    def _from_json(cls, data, **kwargs):
        return cls()


class _EqMeta(type):
    def __eq__(cls, other):
        return cls is other


class Unhashable(metaclass=_EqMeta):
    """a class that cannot be hashed (its metaclass defines __eq__ without __hash__)"""


class _Settings:
    """an object that answers every attribute access from a dict: a missing key is a KeyError"""

    def __getattr__(self, name):
        raise KeyError(name)

    def __repr__(self):
        raise KeyError("__repr__")


SETTINGS = _Settings()


class PlainFunctionFromJson(SubclassJSONSerializer):
    """_from_json written without a decorator and without a class parameter: called on the class it works like a static method"""

    def _from_json(data, **kwargs):
        return PlainFunctionFromJson()


@dataclass
class Node0(SubclassJSONSerializer):
    name: str = ""
    payload: Any = None
    friends: List[Any] = field(default_factory=list)

    def to_json(self):
        return {**super().to_json(), "name": self.name, "payload": to_json(self.payload),
                "friends": to_json(self.friends)}

    @classmethod
    def _from_json(cls, data, **kwargs):
        return cls(name=data["name"], payload=from_json(data["payload"]), friends=from_json(data["friends"]))


@dataclass
class Node1(Node0):
    pass


@dataclass
class Node2(Node1):
    level: int = 2

    def to_json(self):
        return {**super().to_json(), "level": self.level}

    @classmethod
    def _from_json(cls, data, **kwargs):
        return cls(name=data["name"], payload=from_json(data["payload"]), friends=from_json(data["friends"]),
                   level=data["level"])


@dataclass
class Node3(Node2):
    extra: Any = None

    def to_json(self):
        return {**super().to_json(), "extra": to_json(self.extra)}

    @classmethod
    def _from_json(cls, data, **kwargs):
        return cls(name=data["name"], payload=from_json(data["payload"]), friends=from_json(data["friends"]),
                   level=data["level"], extra=from_json(data["extra"]))


@dataclass
class ContextNode(Node0):
    """needs a keyword argument of from_json (a context) and hands the keyword arguments on to what it contains"""
    unit: str = ""

    @classmethod
    def _from_json(cls, data, **kwargs):
        return cls(name=data["name"], payload=from_json(data["payload"], **kwargs), friends=from_json(data["friends"], **kwargs),
                   unit=kwargs["unit"])


@dataclass
class IterNode(Node1):
    """a serialisable object that is also iterable (unpackable): still an object, not a list"""

    def __iter__(self):
        return iter((self.name, self.payload))


class Outer:
    """only a namespace: the serialisable class is defined inside another class"""

    @dataclass
    class NestedNode(Node1):
        pass


@dataclass
class StaticNode(Node0):
    """says how it is created from json with a static method instead of a class method"""

    @staticmethod
    def _from_json(data, **kwargs):
        return StaticNode(name=data["name"], payload=from_json(data["payload"]), friends=from_json(data["friends"]))


class AbstractNode(SubclassJSONSerializer, abc.ABC):
    """a serialisable class that cannot be instantiated"""

    @abc.abstractmethod
    def shape(self):
        ...

    @classmethod
    def _from_json(cls, data, **kwargs):
        return cls()


class NoneFromJson(SubclassJSONSerializer):
    """a serialisable class whose _from_json is not callable"""
    _from_json = None


class Point(collections.namedtuple("Point", ["x", "y"])):
    """a registered named tuple: a tuple by inheritance, an object of its own by registration"""


class Level(enum.IntEnum):
    """a registered IntEnum: an int by inheritance"""
    LOW = 1
    HIGH = 2


class Name(str, SubclassJSONSerializer):
    """a str subclass that is serialisable"""

    def to_json(self):
        return {**super().to_json(), "text": str(self)}

    @classmethod
    def _from_json(cls, data, **kwargs):
        return cls(data["text"])


def _ser_point(obj):
    return {JSON_TYPE_NAME: _tag(Point), "x": obj.x, "y": obj.y}


def _deser_point(data, **kwargs):
    return Point(data["x"], data["y"])


def _ser_level(obj):
    return {JSON_TYPE_NAME: _tag(Level), "value": int(obj)}


def _deser_level(data, **kwargs):
    return Level(data["value"])


def _ser_deque(obj):
    return {JSON_TYPE_NAME: "collections.deque", "items": to_json(list(obj))}


def _deser_deque(data, **kwargs):
    return collections.deque(from_json(data["items"]))


def _ser_decimal(obj):
    return {JSON_TYPE_NAME: "decimal.Decimal", "digits": str(obj)}


def _deser_decimal(data, **kwargs):
    return decimal.Decimal(data["digits"])


class Money:
    """a 'third-party' value type (no krrood base class); registered with the registry"""

    def __init__(self, amount, currency="EUR"):
        self.amount, self.currency = amount, currency

    def _key(self):
        return (self.amount, self.currency)

    def __eq__(self, other):
        return type(other) is type(self) and other._key() == self._key()

    def __hash__(self):
        return hash(self._key())

    def __repr__(self):
        return f"{type(self).__name__}{self._key()}"


class TaxedMoney(Money):
    """registered AFTER its base class, with functions of its own"""

    def __init__(self, amount, currency="EUR", tax="0"):
        super().__init__(amount, currency)
        self.tax = tax

    def _key(self):
        return (self.amount, self.currency, self.tax)


class Tip(TaxedMoney):
    """registered BEFORE nothing else of its chain is looked at again: third level"""

    def __init__(self, amount, currency="EUR", tax="0", note=""):
        super().__init__(amount, currency, tax)
        self.note = note

    def _key(self):
        return (self.amount, self.currency, self.tax, self.note)


class EntityId(uuid.UUID):
    """a subclass of a type krrood registers itself (uuid.UUID), registered on its own"""


class Early(Money):
    """a subclass registered BEFORE its base class Late? no: Early derives Money and is registered before Money"""


def _tag(cls):
    return cls.__module__ + "." + cls.__name__


def _ser_money(obj):
    return {JSON_TYPE_NAME: _tag(Money), "amount": obj.amount, "currency": obj.currency}


def _deser_money(data, **kwargs):
    return Money(data["amount"], data["currency"])


def _ser_taxed(obj):
    return {JSON_TYPE_NAME: _tag(TaxedMoney), "amount": obj.amount, "currency": obj.currency, "tax": obj.tax}


def _deser_taxed(data, **kwargs):
    return TaxedMoney(data["amount"], data["currency"], data["tax"])


def _ser_tip(obj):
    return {JSON_TYPE_NAME: _tag(Tip), "amount": obj.amount, "currency": obj.currency, "tax": obj.tax, "note": obj.note}


def _deser_tip(data, **kwargs):
    return Tip(data["amount"], data["currency"], data["tax"], data["note"])


def _ser_early(obj):
    return {JSON_TYPE_NAME: _tag(Early), "amount": obj.amount, "currency": obj.currency}


def _deser_early(data, **kwargs):
    return Early(data["amount"], data["currency"])


def _ser_entity_id(obj):
    return {JSON_TYPE_NAME: _tag(EntityId), "hex": obj.hex}


def _deser_entity_id(data, **kwargs):
    return EntityId(data["hex"])


def _ser_fraction(obj):
    return {JSON_TYPE_NAME: "fractions.Fraction", "n": str(obj.numerator), "d": str(obj.denominator)}


def _deser_fraction(data, **kwargs):
    return fractions.Fraction(int(data["n"]), int(data["d"]))


class PlainUUID(uuid.UUID):
    """a sub-class of a registered type that is not registered itself"""


class Coin(Money):
    """a sub-class of a registered plain class that is not registered itself"""


# what register() registers, plus what krrood registers at import: the types a tag may name besides serialisable classes
REGISTERED_TYPES = (uuid.UUID, decimal.Decimal, Early, Money, TaxedMoney, Tip, EntityId, fractions.Fraction, collections.deque,
                    Point, Level)


def _ser_proxy(obj):
    # the tag krrood's own UUID serializer writes: module + qualified name - 'builtins.mappingproxy' is not a name
    # that can be imported
    return {"__json_type__": _tag(type(obj)), "items": [[k, to_json(v)] for k, v in obj.items()]}


def _deser_proxy(data, **kwargs):
    import types
    return types.MappingProxyType({k: from_json(v) for k, v in data["items"]})


def register():
    reg = JSONSerializableTypeRegistry()
    reg.register(decimal.Decimal, _ser_decimal, _deser_decimal)
    reg.register(Early, _ser_early, _deser_early)              # sub-class first ...
    reg.register(Money, _ser_money, _deser_money)              # ... then its base, then the chain downwards
    reg.register(TaxedMoney, _ser_taxed, _deser_taxed)
    reg.register(Tip, _ser_tip, _deser_tip)
    reg.register(EntityId, _ser_entity_id, _deser_entity_id)   # uuid.UUID itself is registered by krrood at import
    reg.register(fractions.Fraction, _ser_fraction, _deser_fraction)
    reg.register(collections.deque, _ser_deque, _deser_deque)  # an iterable registered type
    reg.register(Point, _ser_point, _deser_point)              # registered types that derive from builtins
    reg.register(Level, _ser_level, _deser_level)
    import types
    reg.register(types.MappingProxyType, _ser_proxy, _deser_proxy)   # a registered type whose tag is no importable path
