"""Harness model for the JSON checks (C18/C19): a 4-level SubclassJSONSerializer hierarchy with
nested serialisable fields and a registered third-party type."""
from __future__ import annotations

import decimal
from dataclasses import dataclass, field
from typing import Any, List, TypeVar

from krrood.adapters.json_serializer import (JSONSerializableTypeRegistry, SubclassJSONSerializer, from_json, to_json,
                                             JSON_TYPE_NAME)

TV = TypeVar("TV")
CONSTANT = 42


def a_function():
    return 1


class NotSerializable:
    pass


@dataclass
class Node0(SubclassJSONSerializer):
    name: str = ""
    payload: Any = None
    friends: List[Any] = field(default_factory=list)

    def to_json(self):
        return {**super().to_json(), "name": self.name, "payload": to_json(self.payload),
                "friends": to_json(self.friends)}

    @classmethod
    def _from_json(cls, data, **kwargs):
        return cls(name=data["name"], payload=from_json(data["payload"]), friends=from_json(data["friends"]))


@dataclass
class Node1(Node0):
    pass


@dataclass
class Node2(Node1):
    level: int = 2

    def to_json(self):
        return {**super().to_json(), "level": self.level}

    @classmethod
    def _from_json(cls, data, **kwargs):
        return cls(name=data["name"], payload=from_json(data["payload"]), friends=from_json(data["friends"]),
                   level=data["level"])


@dataclass
class Node3(Node2):
    extra: Any = None

    def to_json(self):
        return {**super().to_json(), "extra": to_json(self.extra)}

    @classmethod
    def _from_json(cls, data, **kwargs):
        return cls(name=data["name"], payload=from_json(data["payload"]), friends=from_json(data["friends"]),
                   level=data["level"], extra=from_json(data["extra"]))


def _ser_decimal(obj):
    return {JSON_TYPE_NAME: "decimal.Decimal", "digits": str(obj)}


def _deser_decimal(data, **kwargs):
    return decimal.Decimal(data["digits"])


def register():
    JSONSerializableTypeRegistry().register(decimal.Decimal, _ser_decimal, _deser_decimal)
