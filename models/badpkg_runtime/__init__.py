"""a package whose import fails with something that is not an ImportError"""
raise RuntimeError("this module cannot be used in this environment")
