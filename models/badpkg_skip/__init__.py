"""a module that ends its import with an exception that does not derive from Exception (as pytest's Skipped of a
module that skips itself)"""


class Skipped(BaseException):
    pass


raise Skipped("this module needs an optional dependency")
