"""Fixture: a package whose import fails with ImportError (not ModuleNotFoundError)."""
raise ImportError("verif fixture: this package cannot be imported")
