"""a module that does not even compile"""
def broken(:
    pass
