"""a script-like module: importing it ends with sys.exit (as `unittest.__main__` or a command line tool without a main guard do)"""
import sys

sys.exit(3)
