"""a command line tool without a main guard"""
import sys

sys.exit(2)
