"""a package that imports its sub-modules lazily through a module-level __getattr__"""
import importlib


def __getattr__(name):
    if name.startswith("__"):
        raise AttributeError(name)
    return importlib.import_module(f"{__name__}.{name}")
