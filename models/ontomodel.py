"""Harness ontology for the symbol-graph / property-descriptor checks (C13-C16, C20).

 * inverse pair                      : Member <-> MemberOf
 * 3-level sub-property chain        : HeadOf < WorksFor < MemberOf, HeadOf lives on a Role (Chief) whose role
                                       taker (Person) carries the super-properties
 * transitive property               : SubOrgOf
 * transitive + inverse              : PartOf <-> HasPart (both transitive)
 * sub-property of a transitive one  : WhollyOwnedBy < SubOrgOf
 * class hierarchy for domain-less variables: Person > Employee > Manager ; Org > Dept
Descriptors can be declared only once per process, so this module must be imported once.
"""
from __future__ import annotations

from abc import ABC
from dataclasses import dataclass, field

from typing_extensions import List, Optional, Set, Type

from krrood.class_diagrams.utils import Role
from krrood.entity_query_language.predicate import Predicate, Symbol
from krrood.ontomatic.property_descriptor.mixins import HasInverseProperty, TransitiveProperty
from krrood.ontomatic.property_descriptor.property_descriptor import PropertyDescriptor


@dataclass(eq=False)
class Org(Symbol):
    name: str
    members: Set[Person] = field(default_factory=set)
    attendees: List[Visitor] = field(default_factory=list)
    sub_org_of: List[Org] = field(default_factory=list)
    part_of: List[Org] = field(default_factory=list)
    has_part: List[Org] = field(default_factory=list)
    wholly_owned_by: List[Org] = field(default_factory=list)

    def __repr__(self):
        return f"{type(self).__name__}({self.name})"


@dataclass(eq=False, repr=False)
class Dept(Org):
    pass


@dataclass(eq=False, repr=False)
class Bag(Org):
    """a container-like organisation: falsy while it has no members, and iterable over them"""

    def __len__(self):
        return len(self.members)

    def __iter__(self):
        return iter(list(self.members))


@dataclass(repr=False)
class Crate(Org):
    """a plain @dataclass: __eq__ generated from the fields, hence not hashable"""


@dataclass(eq=False)
class Person(Symbol):
    name: str
    works_for: Org = None
    member_of: List[Org] = field(default_factory=list)

    def __repr__(self):
        return f"{type(self).__name__}({self.name})"


@dataclass(repr=False)
class Loose(Person):
    """a plain @dataclass: __eq__ generated from the fields, hence not hashable - a set refuses it"""


@dataclass(eq=False, repr=False)
class Employee(Person):
    pass


@dataclass(eq=False, repr=False)
class Manager(Employee):
    pass


@dataclass(eq=False, repr=False)
class Volunteer(Person):
    pass


def _seasonal():
    @dataclass(eq=False, repr=False)
    class Seasonal(Employee):
        """made by a factory that is called twice: two distinct classes with one qualified name"""
    return Seasonal


SeasonalA, SeasonalB = _seasonal(), _seasonal()


@dataclass(eq=False, repr=False)
class WorkingStudent(Employee, Volunteer):
    """diamond: Person <- Employee, Volunteer <- WorkingStudent"""
    pass


@dataclass(eq=False)
class Unit(Symbol):
    """another domain of the transitive SubOrgOf property, under another field name"""
    name: str
    under: List[Org] = field(default_factory=list)

    def __repr__(self):
        return f"Unit({self.name})"


@dataclass(eq=False)
class Chief(Role[Person], Symbol):
    person: Person
    head_of: Org = None

    # Role is a dataclass with eq=True (so __hash__ is None and all instances compare equal): use identity
    __hash__ = object.__hash__

    def __eq__(self, other):
        return self is other

    def __repr__(self):
        return f"Chief({self.person.name})"


@dataclass(eq=False)
class ChiefE(Role[Person], Symbol):
    """the role's own field is declared before the role-taker field: the generated __init__ assigns it first"""
    head_of: Org
    person: Person

    __hash__ = object.__hash__

    def __eq__(self, other):
        return self is other

    def __repr__(self):
        return f"ChiefE({self.person.name})"


@dataclass(eq=False)
class ChiefF(Role["Person"], Symbol):
    """the same role, its role taker written as a forward reference"""
    person: Person
    head_of: Org = None

    __hash__ = object.__hash__

    def __eq__(self, other):
        return self is other

    def __repr__(self):
        return f"ChiefF({self.person.name})"


@dataclass(eq=False)
class Boss(Symbol):
    """two single-valued fields, the sub-property declared (and assigned by the constructor) before its super-property"""
    name: str
    runs: Org = None
    employed_by: Org = None

    def __repr__(self):
        return f"Boss({self.name})"


@dataclass(eq=False)
class Visitor(Symbol):
    name: str

    def __repr__(self):
        return f"{type(self).__name__}({self.name})"


@dataclass(eq=False, repr=False)
class Delegate(Visitor):
    """only this subclass of the declared role taker type carries the super-property field"""
    attends: List[Org] = field(default_factory=list)
    sees: List[Org] = field(default_factory=list)


@dataclass(eq=False, repr=False)
class Convener(Delegate):
    """carries the lowest (leads) and the highest (attends) level of Leads < Chairs < Attends, but not the middle one"""
    leads: List[Org] = field(default_factory=list)
    shows: List[Org] = field(default_factory=list)


@dataclass(eq=False)
class Chair(Role[Visitor], Symbol):
    visitor: Visitor
    chairs: Org = None
    guides: List[Org] = field(default_factory=list)

    __hash__ = object.__hash__

    def __eq__(self, other):
        return self is other

    def __repr__(self):
        return f"Chair({self.visitor.name})"


@dataclass
class VOrg(Symbol):
    """value equality: two VOrg("x") are equal and hash alike but are distinct instances ("twins")"""
    name: str
    members: Set[VPerson] = field(default_factory=set, compare=False, repr=False)

    def __hash__(self):
        return hash(self.name)


@dataclass
class VPerson(Symbol):
    name: str
    member_of: List[VOrg] = field(default_factory=list, compare=False, repr=False)

    def __hash__(self):
        return hash(self.name)


@dataclass(eq=False)
class Keeper(Symbol):
    """a managed collection field that may be missing: declared Optional, default None"""
    name: str
    keeps: Optional[List[Org]] = None

    def __repr__(self):
        return f"Keeper({self.name})"


@dataclass
class Keeps(PropertyDescriptor):
    pass


@dataclass(eq=False)
class Row(Symbol):
    """a user class may have a field with the name the expression nodes use for their identifier"""
    name: str
    _id_: int = 7

    def __repr__(self):
        return f"Row({self.name})"


class Badged(Symbol, ABC):
    """a class that other classes join by registration (ABC.register): isinstance / issubclass hold for them"""


Badged.register(Row)


@dataclass(eq=False)
class Lenient(Symbol):
    """a record whose unknown attributes read as None"""
    name: str

    def __getattr__(self, attribute_name):
        if attribute_name.startswith("__"):
            raise AttributeError(attribute_name)
        return None

    def __repr__(self):
        return f"Lenient({self.__dict__.get('name')})"


@dataclass(eq=False)
class Stamp(Predicate):
    """an instance of a predicate is a Symbol that the graph does not register when it is created: it gets its node
    when a relation needs one"""
    label: str

    def __call__(self):
        return True

    def __repr__(self):
        return f"Stamp({self.label})"


@dataclass(eq=False)
class Folder(Symbol):
    name: str
    stamps: List[Stamp] = field(default_factory=list)

    def __repr__(self):
        return f"Folder({self.name})"


@dataclass
class HasStamp(PropertyDescriptor):
    pass


@dataclass
class Member(PropertyDescriptor, HasInverseProperty):
    @classmethod
    def get_inverse(cls) -> Type[MemberOf]:
        return MemberOf


@dataclass
class MemberOf(PropertyDescriptor, HasInverseProperty):
    @classmethod
    def get_inverse(cls) -> Type[Member]:
        return Member


@dataclass
class WorksFor(MemberOf):
    pass


@dataclass
class HeadOf(WorksFor):
    pass


@dataclass
class Attends(PropertyDescriptor, HasInverseProperty):
    @classmethod
    def get_inverse(cls):
        return Attendees


@dataclass
class Attendees(PropertyDescriptor, HasInverseProperty):
    """inverse of Attends: its field for a chair lives on the chair's role taker - on a subclass of the declared one"""

    @classmethod
    def get_inverse(cls):
        return Attends


@dataclass
class Chairs(Attends):
    pass


@dataclass
class Leads(Chairs):
    pass


@dataclass
class Sees(PropertyDescriptor):
    """no inverse: Guides < Sees reaches the role taker through the role-taker rule only"""


@dataclass
class Guides(Sees):
    pass


@dataclass
class Shows(Guides):
    """Shows < Guides < Sees without an inverse: Convener carries the lowest and the highest level only"""


@dataclass
class EmployedBy(PropertyDescriptor):
    pass


@dataclass
class Runs(EmployedBy):
    pass


@dataclass
class SubOrgOf(PropertyDescriptor, TransitiveProperty):
    ...


@dataclass
class WhollyOwnedBy(SubOrgOf):
    """a sub-property of a transitive property (transitive itself through the inherited mixin)"""


@dataclass
class PartOf(PropertyDescriptor, TransitiveProperty, HasInverseProperty):
    @classmethod
    def get_inverse(cls):
        return HasPart


@dataclass
class HasPart(PropertyDescriptor, TransitiveProperty, HasInverseProperty):
    @classmethod
    def get_inverse(cls):
        return PartOf


Person.works_for = WorksFor(Person, "works_for")
Person.member_of = MemberOf(Person, "member_of")
Chief.head_of = HeadOf(Chief, "head_of")
ChiefF.head_of = HeadOf(ChiefF, "head_of")
ChiefE.head_of = HeadOf(ChiefE, "head_of")
Org.members = Member(Org, "members")
VPerson.member_of = MemberOf(VPerson, "member_of")
VOrg.members = Member(VOrg, "members")
Org.sub_org_of = SubOrgOf(Org, "sub_org_of")
Unit.under = SubOrgOf(Unit, "under")
Delegate.attends = Attends(Delegate, "attends")
Org.attendees = Attendees(Org, "attendees")
Chair.chairs = Chairs(Chair, "chairs")
Delegate.sees = Sees(Delegate, "sees")
Chair.guides = Guides(Chair, "guides")
Convener.shows = Shows(Convener, "shows")
Convener.leads = Leads(Convener, "leads")
Boss.runs = Runs(Boss, "runs")
Boss.employed_by = EmployedBy(Boss, "employed_by")
Org.wholly_owned_by = WhollyOwnedBy(Org, "wholly_owned_by")
Org.part_of = PartOf(Org, "part_of")
Org.has_part = HasPart(Org, "has_part")
Folder.stamps = HasStamp(Folder, "stamps")
Keeper.keeps = Keeps(Keeper, "keeps")

PERSON_CLASSES = {"Person": Person, "Employee": Employee, "Manager": Manager, "Volunteer": Volunteer,
                  "WorkingStudent": WorkingStudent}
ORG_CLASSES = {"Org": Org, "Dept": Dept}
ODD_CLASSES = {"Bag": Bag, "Crate": Crate}
ALL_CLASSES = {**PERSON_CLASSES, **ORG_CLASSES, "SeasonalA": SeasonalA, "SeasonalB": SeasonalB, "Loose": Loose, "Chief": Chief, "ChiefF": ChiefF, "ChiefE": ChiefE, "VOrg": VOrg, "VPerson": VPerson, "Unit": Unit,
               "Visitor": Visitor, "Delegate": Delegate, "Chair": Chair, "Convener": Convener, "Boss": Boss, "Folder": Folder, "Stamp": Stamp, "Row": Row, "Lenient": Lenient, "Keeper": Keeper, "Badged": Badged}
