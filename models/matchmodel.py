"""Harness Symbol model for the pattern-matching check (C11)."""
from __future__ import annotations

from dataclasses import dataclass, field
from typing import List, Optional, Tuple

from krrood.entity_query_language.predicate import Symbol


@dataclass(eq=False)
class Part(Symbol):
    name: str = ""
    size: int = 0

    def __repr__(self):
        return f"{type(self).__name__}({self.name},{self.size})"


@dataclass(eq=False)
class BigPart(Part):
    grade: int = 0


class Marked:
    """a mixin that is no Symbol and no dataclass: only some parts inherit from it"""


@dataclass(eq=False)
class MarkedPart(Part, Marked):
    pass


@dataclass(eq=False)
class LoosePart(Part):
    """compared by identity like every part, but not hashable (what a plain @dataclass with eq=True is as well)"""
    __hash__ = None


@dataclass(eq=False)
class Box(Symbol):
    label: str = ""
    lid: Part = None
    parts: List[Part] = field(default_factory=list)
    tags: List[str] = field(default_factory=list)
    weight: int = 0
    spare: Optional[Part] = None
    row: Tuple[Part, ...] = ()
    extras: Optional[List[Part]] = None
    slots: List[Optional[Part]] = field(default_factory=list)

    def __repr__(self):
        return f"{type(self).__name__}({self.label})"


@dataclass(eq=False)
class FancyBox(Box):
    ribbon: str = ""


@dataclass(eq=False)
class Shelf(Symbol):
    code: str = ""
    main: Box = None
    boxes: List[Box] = field(default_factory=list)

    def __repr__(self):
        return f"Shelf({self.code})"
