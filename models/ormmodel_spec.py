"""Model spec (vlib.modelgen format) of models/ormmodel.py for the object-graph generator and the comparison."""
f = lambda n, k, t=None: {"name": n, "kind": k, "target": t}
SPEC = {"module": "models.ormmodel", "profile": "handwritten", "order": [], "classes": [
    {"name": "Vec", "parent": None, "fields": [f("uid", "int"), f("x", "float"), f("y", "float")]},
    {"name": "Pin", "parent": None, "fields": [f("uid", "int"), f("host", "opt_ref", "Item")]},
    {"name": "Item", "parent": None, "fields": [f("uid", "int"), f("n", "int"), f("price", "opt_money"), f("holder", "opt_ref", "Holder"),
                                                f("spot", "opt_ref", "Vec"), f("pin", "opt_ref", "Pin")]},
    {"name": "Holder", "parent": None, "fields": [f("uid", "int"), f("main", "ref", "Item"), f("items", "list_ref", "Item"),
                                                  f("spare", "list_ref", "Item"), f("vecs", "list_ref", "Vec"),
                                                  f("kind", "type", "Base0"), f("color", "enum")]},
    {"name": "Base0", "parent": None, "fields": [f("uid", "int"), f("label", "str"), f("tags", "list_str"), f("when", "datetime"),
                                                 f("opt", "opt_float")]},
    {"name": "Mid", "parent": "Base0", "fields": [f("owner", "opt_ref", "Holder"), f("budget", "opt_money")]},
    {"name": "Leaf", "parent": "Mid", "fields": [f("things", "list_ref", "Item"), f("where", "opt_ref", "Vec")]},
    {"name": "Port", "parent": None, "fields": [f("uid", "int"), f("shape", "opt_ref", "ShapeBase"), f("stamp", "opt_ref", "Stamp")]},
    {"name": "ShapeBase", "parent": None, "fields": [f("uid", "int"), f("name", "str"), f("turn", "int"), f("ports", "list_ref", "Port")]},
    {"name": "Circle", "parent": "ShapeBase", "fields": [f("r", "float"), f("center", "opt_ref", "Vec")]},
    {"name": "Ring", "parent": "Circle", "fields": [f("thick", "float")]},
    {"name": "Square", "parent": "ShapeBase", "fields": [f("side", "int")]},
    {"name": "Tile", "parent": "Square", "fields": [f("glaze", "str")]},
    {"name": "Stamp", "parent": None, "fields": [f("uid", "int"), f("where", "opt_ref", "Vec"), f("marks", "list_ref", "Port"), f("text", "str")]},
    {"name": "Sheet", "parent": None, "fields": [f("uid", "int"), f("shapes", "list_ref", "ShapeBase"), f("stamp", "opt_ref", "Stamp")]},
]}
SPEC["order"] = [c["name"] for c in SPEC["classes"]]
# references to an alternatively mapped class that takes part in reference cycles (listed finding of C04/C05)
SPEC["alt_cycle_fields"] = ["pin", "shape", "shapes"]
