"""
An alternative of a rule whose conditions end in for_all(...) / exists(...) (or in a comparison over a flattened
collection that is empty) never fires for the bindings that the quantified condition rejects.

The else-if operator evaluates its right side only when the left side *yields a false result*; quantified conditions
(and comparisons whose operand has no values) yield nothing at all for a rejected binding.
"""
import sys
from dataclasses import dataclass, field
from typing_extensions import List

from krrood.entity_query_language.entity import entity, let, inference, Symbol, for_all, exists, flatten
from krrood.entity_query_language.quantify_entity import an
from krrood.entity_query_language.rule import alternative
from krrood.entity_query_language.conclusion import Add


@dataclass(eq=False)
class Item(Symbol):
    name: str
    a: int = 0
    parts: List["Item"] = field(default_factory=list)


@dataclass(eq=False)
class Out(Symbol):
    src: object = None
    tag: str = ""


small, big = Item("small", a=0), Item("big", a=1)
items = [small, big]
empty_box, full_box = Item("empty_box", a=5, parts=[]), Item("full_box", a=5, parts=[big])


def run(kind):
    x = let(Item, items, name="x")
    y = let(Item, items, name="y")
    v = inference(Out)()
    if kind == "for_all":  # x is a maximum: every y has y.a <= x.a   -> only "big"
        query = an(entity(v, x.a >= 0, for_all(y, y.a <= x.a)))
    elif kind == "exists":  # something is smaller than x           -> only "big"
        query = an(entity(v, x.a >= 0, exists(y, y.a < x.a)))
    else:  # one of the parts of the box is big                      -> only "full_box"
        x = let(Item, [empty_box, full_box], name="x")
        query = an(entity(v, x.a >= 0, flatten(x.parts).a == 1))
    with query:
        Add(v, inference(Out)(src=x, tag="BASE"))
        with alternative(x.a >= 0):  # always true: "otherwise"
            Add(v, inference(Out)(src=x, tag="OTHERWISE"))
    return sorted(f"{o.tag}({o.src.name})" for o in query.evaluate())


bad = False
for kind, expected in [
    ("for_all", ["BASE(big)", "OTHERWISE(small)"]),
    ("exists", ["BASE(big)", "OTHERWISE(small)"]),
    ("flatten", ["BASE(full_box)", "OTHERWISE(empty_box)"]),
]:
    got = run(kind)
    print(f"{kind:8s} expected {expected} got {got}")
    bad = bad or got != expected
if bad:
    print("VIOLATION: the alternative is silently ignored for the bindings the base rule rejects")
    sys.exit(1)
