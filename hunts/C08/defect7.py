"""
A branch whose only condition is a bare variable (or a stored attribute expression) that is also used in the branch's
conclusion: "for every x conclude Out(src=x)".

Creating the conclusion makes the condition node a child of the conclusion's value, and the conclusion a child of the
condition node: the primary-parent chain of the expression graph becomes a cycle and the library loops forever
(in evaluate() for the base rule, already in `with alternative(y):` / a nested `with refinement(...)` for branches).
"""
import signal
import sys
from dataclasses import dataclass

from krrood.entity_query_language.entity import entity, let, inference, Symbol
from krrood.entity_query_language.quantify_entity import an
from krrood.entity_query_language.rule import refinement, alternative
from krrood.entity_query_language.conclusion import Add


@dataclass(eq=False)
class Item(Symbol):
    name: str
    a: int = 0
    flag: bool = False


@dataclass(eq=False)
class Out(Symbol):
    src: object = None
    tag: str = ""


class Hang(Exception):
    pass


def on_alarm(signum, frame):
    raise Hang()


signal.signal(signal.SIGALRM, on_alarm)
items = [Item("i0", 0, False), Item("i1", 1, True)]


def base_is_a_bare_variable():
    x = let(Item, items, name="x")
    v = inference(Out)()
    query = an(entity(v, x))  # for every x
    with query:
        Add(v, inference(Out)(src=x, tag="A"))
    return sorted(f"{o.tag}({o.src.name})" for o in query.evaluate())


def alternative_is_a_bare_variable():
    x = let(Item, items, name="x")
    y = let(Item, items, name="y")
    v = inference(Out)()
    query = an(entity(v, x.a == 7))  # never
    with query:
        Add(v, inference(Out)(src=x, tag="A"))
        with alternative(y):  # otherwise, for every y
            Add(v, inference(Out)(src=y, tag="ALT"))
    return sorted(f"{o.tag}({o.src.name})" for o in query.evaluate())


def refinement_is_a_stored_attribute():
    x = let(Item, items, name="x")
    flag = x.flag  # alias, as recommended in examples/eql/writing_rule_trees.md
    v = inference(Out)()
    query = an(entity(v, x.a >= 0))
    with query:
        Add(v, inference(Out)(src=x, tag="A"))
        with refinement(flag):
            Add(v, inference(Out)(src=flag, tag="FLAGGED"))
    return sorted(f"{o.tag}({getattr(o.src, 'name', o.src)})" for o in query.evaluate())


bad = False
for fn, expected in [
    (base_is_a_bare_variable, ["A(i0)", "A(i1)"]),
    (alternative_is_a_bare_variable, ["ALT(i0)", "ALT(i1)"]),
    (refinement_is_a_stored_attribute, ["A(i0)", "FLAGGED(True)"]),
]:
    signal.alarm(10)
    try:
        got = fn()
    except Hang:
        got = "NO ANSWER AFTER 10 s (endless loop)"
    finally:
        signal.alarm(0)
    print(f"{fn.__name__}: expected {expected} got {got}")
    bad = bad or got != expected
    from krrood.entity_query_language.symbolic import SymbolicExpression

    SymbolicExpression._symbolic_expression_stack_.clear()
if bad:
    print("VIOLATION: the rule cannot be evaluated / built at all")
    sys.exit(1)
