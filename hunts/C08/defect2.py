"""
A rule whose conditions contain or_(...) over two different variables, plus an alternative.

For a binding (x, y) where the left side of the or_ is true and the right side is false, the base rule fires
(correct) and the alternative fires as well, although an alternative may only fire for bindings for which no earlier
branch of its chain fired.
"""
import sys
from dataclasses import dataclass

from krrood.entity_query_language.entity import entity, let, inference, Symbol, or_
from krrood.entity_query_language.quantify_entity import an
from krrood.entity_query_language.rule import alternative
from krrood.entity_query_language.conclusion import Add


@dataclass(eq=False)
class Item(Symbol):
    name: str
    a: int = 0
    b: int = 0


@dataclass(eq=False)
class Out(Symbol):
    first: object = None
    second: object = None
    tag: str = ""


xs = [Item("x_a1", a=1), Item("x_a0", a=0)]
ys = [Item("y_a1", a=1), Item("y_a0", a=0)]
x = let(Item, xs, name="x")
y = let(Item, ys, name="y")
v = inference(Out)()
# x.b == 0 and y.b == 0 hold for every element, they only bind x and y before the disjunction
query = an(entity(v, x.b == 0, y.b == 0, or_(x.a == 1, y.a == 1)))
with query:
    Add(v, inference(Out)(first=x, second=y, tag="BASE"))
    with alternative(x.b == 0, y.b == 0):  # always true: "otherwise"
        Add(v, inference(Out)(first=x, second=y, tag="OTHERWISE"))

got = sorted(f"{o.tag}({o.first.name},{o.second.name})" for o in query.evaluate())
expected = sorted(
    f"{'BASE' if (xi.a == 1 or yi.a == 1) else 'OTHERWISE'}({xi.name},{yi.name})"
    for xi in xs
    for yi in ys
)
print("expected:", expected)
print("got     :", got)
if got != expected:
    print("VIOLATION: extra", sorted(set(got) - set(expected)), "missing", sorted(set(expected) - set(got)))
    sys.exit(1)
