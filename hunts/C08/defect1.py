"""
Two sibling refinements of one rule that both introduce the same (not yet bound) variable.

The refinement written first has priority over the one written second (the library itself behaves like that when the
refinements use different helper variables, see variant "z").  When both refinements use the same helper variable y,
the second refinement is evaluated first, binds y to *its* witnesses, and the first refinement is then only checked for
those values of y - although its conditions hold for the binding of the base rule (with another y).
"""
import sys
from dataclasses import dataclass

from krrood.entity_query_language.entity import entity, let, inference, Symbol
from krrood.entity_query_language.quantify_entity import an
from krrood.entity_query_language.rule import refinement
from krrood.entity_query_language.conclusion import Add


@dataclass(eq=False)
class Item(Symbol):
    name: str
    a: int = 0
    b: int = 0


@dataclass(eq=False)
class Out(Symbol):
    src: object = None
    tag: str = ""


def run(same_helper_variable: bool):
    # one base element and two possible helpers: h1 (b == 1) and h0 (b == 0)
    xs = [Item("x1", a=1)]
    helpers = [Item("h1", a=1, b=1), Item("h0", a=1, b=0)]
    x = let(Item, xs, name="x")
    y = let(Item, helpers, name="y")
    z = y if same_helper_variable else let(Item, helpers, name="z")
    v = inference(Out)()
    query = an(entity(v, x.a == 1))
    with query:
        Add(v, inference(Out)(src=x, tag="BASE"))
        # written first: there is a helper with the same a and b == 1   (true for x1, witness h1)
        with refinement(y.a == x.a, y.b == 1):
            Add(v, inference(Out)(src=x, tag="FIRST"))
        # written second: there is a helper with the same a and b == 0  (true for x1, witness h0)
        with refinement(z.a == x.a, z.b == 0):
            Add(v, inference(Out)(src=x, tag="SECOND"))
    return sorted(f"{o.tag}({o.src.name})" for o in query.evaluate())


reference = run(same_helper_variable=False)
got = run(same_helper_variable=True)
print("different helper variables (y, z):", reference)
print("same helper variable (y, y)      :", got)
print("expected in both cases           : ['FIRST(x1)']")
if reference != ["FIRST(x1)"]:
    print("unexpected: the reference variant changed")
    sys.exit(2)
if got != ["FIRST(x1)"]:
    print("VIOLATION: the refinement written first holds for x1 (witness h1) but it never fires")
    sys.exit(1)
