"""
Two Add conclusions in one branch: only one of the two instances is produced for a binding, the other one is silently
lost (which one survives depends on set iteration order).
"""
import sys
from dataclasses import dataclass

from krrood.entity_query_language.entity import entity, let, inference, Symbol
from krrood.entity_query_language.quantify_entity import an
from krrood.entity_query_language.conclusion import Add


@dataclass(eq=False)
class Item(Symbol):
    name: str
    a: int = 0


@dataclass(eq=False)
class Out(Symbol):
    src: object = None
    tag: str = ""


items = [Item("i0", 0), Item("i1", 1)]
x = let(Item, items, name="x")
v = inference(Out)()
query = an(entity(v, x.a == 1))
with query:
    Add(v, inference(Out)(src=x, tag="LEFT_DOOR"))
    Add(v, inference(Out)(src=x, tag="RIGHT_DOOR"))

got = sorted(f"{o.tag}({o.src.name})" for o in query.evaluate())
expected = ["LEFT_DOOR(i1)", "RIGHT_DOOR(i1)"]
print("expected:", expected)
print("got     :", got)
if got != expected:
    print("VIOLATION: a written conclusion is silently ignored")
    sys.exit(1)
