"""
Growing a rule tree after the query has been evaluated once (the normal ripple-down-rules workflow: look at the
conclusions, then add an exception).

When two branches are added to the same node after an evaluation, the first of them is silently dropped from the tree.
"""
import sys
from dataclasses import dataclass

from krrood.entity_query_language.entity import entity, let, inference, Symbol
from krrood.entity_query_language.quantify_entity import an
from krrood.entity_query_language.rule import refinement, alternative
from krrood.entity_query_language.conclusion import Add


@dataclass(eq=False)
class Item(Symbol):
    name: str
    a: int = 0
    b: int = 0
    c: int = 0


@dataclass(eq=False)
class Out(Symbol):
    src: object = None
    tag: str = ""


items = [Item(f"i{a}{b}{c}", a, b, c) for a in (0, 1) for b in (0, 1) for c in (0, 1)]


def run(evaluate_in_between: bool):
    x = let(Item, items, name="x")
    v = inference(Out)()
    query = an(entity(v, x.a == 1))
    with query:
        Add(v, inference(Out)(src=x, tag="A"))
    if evaluate_in_between:
        list(query.evaluate())
    with query:
        with refinement(x.b == 1):
            Add(v, inference(Out)(src=x, tag="A_and_B"))
        with alternative(x.c == 1):
            Add(v, inference(Out)(src=x, tag="C"))
    return sorted(f"{o.tag}({o.src.name})" for o in query.evaluate())


expected = ["A(i100)", "A(i101)", "A_and_B(i110)", "A_and_B(i111)", "C(i001)", "C(i011)"]
fresh = run(False)
grown = run(True)
print("expected                         :", expected)
print("tree built before any evaluation :", fresh)
print("branches added after evaluate()  :", grown)
if fresh != expected:
    sys.exit(2)
if grown != expected:
    print("VIOLATION: the refinement 'x.b == 1' is silently ignored")
    sys.exit(1)
