"""
An alternative with a nested refinement that looks at a variable of the base rule.

Which bindings reach the alternative depends on WHERE the base conjunction failed: if it failed before x was bound, the
nested refinement treats x as "there is some x", otherwise as the x of the binding.  Swapping the two (commutative)
conjuncts of the base rule changes the set of inferred instances, and with the first order a binding for which
the base rule does not hold, the alternative holds and the refinement does NOT hold gets no ALT conclusion.
"""
import sys
from dataclasses import dataclass

from krrood.entity_query_language.entity import entity, let, inference, Symbol
from krrood.entity_query_language.quantify_entity import an
from krrood.entity_query_language.rule import refinement, alternative
from krrood.entity_query_language.conclusion import Add


@dataclass(eq=False)
class Item(Symbol):
    name: str
    a: int = 0
    b: int = 0


@dataclass(eq=False)
class Out(Symbol):
    src: object = None
    tag: str = ""


xs = [Item("x_a0", a=0, b=1), Item("x_a1", a=1, b=1)]
zs = [Item("z1", a=1, b=1)]


def run(swap: bool):
    x = let(Item, xs, name="x")
    z = let(Item, zs, name="z")
    v = inference(Out)()
    conjuncts = [z.b == 0, x.b == 0]  # both false for every element: the base rule never fires
    if swap:
        conjuncts.reverse()
    query = an(entity(v, *conjuncts))
    with query:
        Add(v, inference(Out)(src=z, tag="BASE"))
        with alternative(z.a == 1):
            Add(v, inference(Out)(src=z, tag="ALT"))
            with refinement(x.a == 0):
                Add(v, inference(Out)(src=z, tag="ALT_REFINED"))
    return sorted(f"{o.tag}({o.src.name})" for o in query.evaluate())


# reference: binding (x_a0, z1) -> ALT_REFINED(z1); binding (x_a1, z1) -> ALT(z1)
expected = ["ALT(z1)", "ALT_REFINED(z1)"]
first, second = run(False), run(True)
print("expected                   :", expected)
print("and_(z.b == 0, x.b == 0)   :", first)
print("and_(x.b == 0, z.b == 0)   :", second)
if first != expected or second != expected:
    print("VIOLATION: the binding (x_a1, z1) satisfies the alternative but not its refinement, ALT(z1) is missing")
    sys.exit(1)
