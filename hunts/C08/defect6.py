"""
The inferred variable of a rule spelled as let(type_=View, domain=None) (as in test_rules.py::test_add_conclusion and
test_rule_tree_with_a_refinement) instead of inference(View)().

For a binding for which the tree concludes nothing (a refinement without a conclusion, or a conclusion that was
de-duplicated), the result is not skipped: the selected variable is enumerated over every instance of the type that
exists in the symbol graph, so the rule returns unrelated, pre-existing objects and returns earlier results again.
"""
import sys
from dataclasses import dataclass

from krrood.entity_query_language.entity import entity, let, inference, Symbol
from krrood.entity_query_language.quantify_entity import an
from krrood.entity_query_language.rule import refinement
from krrood.entity_query_language.conclusion import Add


@dataclass(eq=False)
class Item(Symbol):
    name: str
    a: int = 0
    b: int = 0


@dataclass(eq=False)
class Out(Symbol):
    src: object = None
    tag: str = ""


unrelated = Out(src=None, tag="UNRELATED_OLD_OBJECT")
items = [Item("i10", 1, 0), Item("i11", 1, 1)]


def run(selected_variable):
    x = let(Item, items, name="x")
    query = an(entity(selected_variable, x.a == 1))
    with query:
        Add(selected_variable, inference(Out)(src=x, tag="A"))
        with refinement(x.b == 1):
            pass  # except if b == 1: conclude nothing
    return [f"{o.tag}({o.src.name if o.src else None})" for o in query.evaluate()]


expected = ["A(i10)"]
with_inference = run(inference(Out)())
with_let = run(let(type_=Out, domain=None))
print("expected                         :", expected)
print("selected = inference(Out)()      :", with_inference)
print("selected = let(Out, domain=None) :", with_let)
if with_inference != expected:
    sys.exit(2)
if with_let != expected:
    print("VIOLATION: instances are returned that were not constructed from the binding that triggered them")
    sys.exit(1)
