"""
A rule query that selects an attribute of the inferred variable (entity(v.tag, ...)) instead of the variable itself.

For a binding for which the tree concludes nothing (a refinement without a conclusion, or a de-duplicated conclusion)
the result is not skipped: the inferred variable is instantiated WITHOUT arguments (Out()) and the attribute of that
empty instance is returned.
"""
import sys
from dataclasses import dataclass

from krrood.entity_query_language.entity import entity, let, inference, Symbol
from krrood.entity_query_language.quantify_entity import an
from krrood.entity_query_language.rule import refinement
from krrood.entity_query_language.conclusion import Add


@dataclass(eq=False)
class Item(Symbol):
    name: str
    a: int = 0
    b: int = 0


@dataclass(eq=False)
class Out(Symbol):
    src: object = None
    tag: str = "DEFAULT_CONSTRUCTED"


items = [Item("i10", 1, 0), Item("i11", 1, 1)]


def run(select_attribute: bool):
    x = let(Item, items, name="x")
    v = inference(Out)()
    query = an(entity(v.tag if select_attribute else v, x.a == 1))
    with query:
        Add(v, inference(Out)(src=x, tag="A"))
        with refinement(x.b == 1):
            pass  # except if b == 1: conclude nothing
    return [r if select_attribute else r.tag for r in query.evaluate()]


expected = ["A"]
plain, attribute = run(False), run(True)
print("expected              :", expected)
print("entity(v, ...)        :", plain)
print("entity(v.tag, ...)    :", attribute)
if plain != expected:
    sys.exit(2)
if attribute != expected:
    print("VIOLATION: a value of an instance that no branch concluded is returned")
    sys.exit(1)
