"""
A class that occurs twice in the class list gets two nodes; the first node is orphaned: every relation is attached
to the second node (the one get_wrapped_class returns), node 0 stays in wrapped_classes without any edge.
"""
import sys
from dataclasses import dataclass
from krrood.class_diagrams.class_diagram import ClassDiagram


@dataclass
class Base:
    x: int = 0


@dataclass
class Derived(Base):
    other: Base = None


d = ClassDiagram([Base, Derived, Base])
nodes = [w.clazz.__name__ for w in d.wrapped_classes]
inh = [(e.source.index, e.target.index) for e in d.inheritance_relations]
assoc = [(e.source.index, e.target.index) for e in d.associations]
print("expected nodes ['Base', 'Derived'], 1 inheritance edge, 1 association edge")
print("got nodes", nodes, "inheritance", inh, "associations", assoc)
print("node 0 reachable through get_wrapped_class:", d.get_wrapped_class(Base).index == 0)
sys.exit(0 if nodes == ["Base", "Derived"] and len(inh) == 1 else 1)
