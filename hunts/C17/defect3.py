"""
One unresolved forward reference (TYPE_CHECKING import) switches the whole class to a fallback namespace that maps
the bare __name__ of every class of the diagram to that class and takes precedence over the module globals.
A perfectly resolvable annotation (`item: Item`, Item defined in the same module) is then redirected to a
same-named class of another module; which one wins depends on the order of the class list.
"""
import sys, types, textwrap
from typing import get_type_hints
from krrood.class_diagrams.class_diagram import ClassDiagram


def module(name, src):
    m = types.ModuleType(name)
    sys.modules[name] = m
    exec(textwrap.dedent(src), m.__dict__)
    return m


warehouse = module("warehouse", """
    from dataclasses import dataclass
    @dataclass
    class Item:
        weight: float = 0.0
    @dataclass
    class Shelf:
        level: int = 0
""")
shop = module("shop", """
    from __future__ import annotations
    from dataclasses import dataclass
    from typing import Optional, TYPE_CHECKING
    if TYPE_CHECKING:
        from warehouse import Shelf
    @dataclass
    class Item:
        price: float = 0.0
    @dataclass
    class Cart:
        item: Item                       # shop.Item
        shelf: Optional[Shelf] = None    # forward reference, only importable for type checkers
""")

truth = get_type_hints(shop.Cart, localns={"Shelf": warehouse.Shelf})["item"]
assert truth is shop.Item
bad = 0
for order in ([shop.Item, warehouse.Item, warehouse.Shelf, shop.Cart],
              [warehouse.Item, shop.Item, warehouse.Shelf, shop.Cart]):
    d = ClassDiagram(order)
    targets = {a.field.name: a.target.clazz for a in d.associations if a.source.clazz is shop.Cart}
    print("order", [c.__module__ + "." + c.__name__ for c in order])
    print("   expected Cart.item ->", truth, " got ->", targets["item"])
    bad += targets["item"] is not shop.Item
sys.exit(1 if bad else 0)
