"""
The sub-diagram copies the graph but still shares _cls_wrapped_cls_map (and the WrappedClass nodes) with the
diagram it was derived from. Extending the derived ("new") diagram registers the class in the ORIGINAL diagram too,
with an index that does not exist in the original graph.
"""
import sys
from dataclasses import dataclass
from krrood.class_diagrams.class_diagram import ClassDiagram
from krrood.class_diagrams.failures import ClassIsUnMappedInClassDiagram


@dataclass
class A:
    x: int = 0


@dataclass
class B(A):
    y: int = 0


@dataclass
class Late:
    z: int = 0


d = ClassDiagram([A, B])
sub = d.to_subdiagram_without_inherited_associations()
print("sub-diagram nodes still point at the original diagram:", sub.get_wrapped_class(A)._class_diagram is d)
sub.add_node(Late)
print("expected: the original diagram does not know Late")
try:
    w = d.get_wrapped_class(Late)
    print("got     :", w, "while the original graph has node indices", list(d._dependency_graph.node_indices()))
    try:
        d.get_out_edges(Late)
    except Exception as e:
        print("          d.get_out_edges(Late) ->", type(e).__name__, e)
    sys.exit(1)
except ClassIsUnMappedInClassDiagram:
    print("got     : unmapped (fine)")
    sys.exit(0)
