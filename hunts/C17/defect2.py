"""
get_neighbors_with_relation_type uses PyDiGraph.adj(), a dict {neighbour: ONE edge}. In the composite pattern
(Composite inherits Component and holds List[Component]) the two classes are connected by two edges, one per
direction, and the inheritance edge is hidden by the association edge.
"""
from __future__ import annotations
import sys
from dataclasses import dataclass, field
from typing import List
from krrood.class_diagrams.class_diagram import ClassDiagram, Association, Inheritance


@dataclass
class Component:
    name: str = ""


@dataclass
class Composite(Component):
    children: List[Component] = field(default_factory=list)


d = ClassDiagram([Component, Composite])
kinds = sorted((type(e).__name__, e.source.clazz.__name__, e.target.clazz.__name__) for e in d._dependency_graph.edges())
print("edges:", kinds)
got = [w.clazz.__name__ for w in d.get_neighbors_with_relation_type(Composite, Inheritance)]
print("expected neighbours of Composite over an Inheritance edge: ['Component']")
print("got                                                      :", got)
got2 = [w.clazz.__name__ for w in d.get_neighbors_with_relation_type(Component, Association)]
print("expected neighbours of Component over an Association edge: ['Composite']")
print("got                                                      :", got2)
# adj() keeps the outgoing edge of the queried node for a neighbour that is connected in both directions,
# so BOTH questions lose the edge that arrives at the queried node
sys.exit(0 if (got == ["Component"] and got2 == ["Composite"]) else 1)
