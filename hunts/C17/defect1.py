"""
Parallel edges are read back with PyDiGraph.get_edge_data(u, v), which returns ONE edge per (u, v) pair.
parent_map / all_ancestors / get_assoc_keys_by_source / to_subdiagram_without_inherited_associations
therefore mis-report the diagram as soon as two edges connect the same ordered pair of classes.
"""
from __future__ import annotations
import sys
from dataclasses import dataclass, field
from typing import List, Optional
from krrood.class_diagrams.class_diagram import ClassDiagram, Association, Inheritance

failures = []

# (a) a base class that has a field typed with its own subclass: Inheritance Body->Compound and
#     Association Body->Compound are parallel; the inheritance edge becomes invisible to parent_map.
@dataclass
class Body:
    compound: Optional[Compound] = None

@dataclass
class Compound(Body):
    weight: float = 0.0

d = ClassDiagram([Body, Compound])
body, compound = d.get_wrapped_class(Body), d.get_wrapped_class(Compound)
assert any(isinstance(e, Inheritance) and e.source is body and e.target is compound
           for e in d._dependency_graph.edges()), "the inheritance edge itself is there"
print("(a) expected parent_map      :", {compound.index: {body.index}})
print("(a) got      parent_map      :", d.parent_map)
print("(a) expected all_ancestors   :", {body.index})
print("(a) got      all_ancestors   :", d.all_ancestors(compound.index))
if d.parent_map != {compound.index: {body.index}} or d.all_ancestors(compound.index) != {body.index}:
    failures.append("a")

# (b) two fields of one class with the same target type
@dataclass
class Point:
    x: float = 0.0

@dataclass
class Segment:
    start: Point = None

@dataclass
class Arrow(Segment):
    tip: Point = None

d = ClassDiagram([Point, Segment, Arrow])
arrow = d.get_wrapped_class(Arrow)
real = {a.field.name for a in d.associations if a.source is arrow}
keys = {k[2] for k in d.get_assoc_keys_by_source(include_field_name=True)[arrow.index]}
print("(b) association edges of Arrow            :", sorted(real))
print("(b) get_assoc_keys_by_source(True)[Arrow] :", sorted(keys))
if keys != real:
    failures.append("b-keys")

sub = d.to_subdiagram_without_inherited_associations(include_field_name=True)
left = sorted(a.field.name for a in sub.associations if a.source.clazz is Arrow)
print("(b) expected Arrow associations in the sub-diagram: ['tip'] (inherited 'start' removed)")
print("(b) got                                           :", left)
if left != ["tip"]:
    failures.append("b-sub")

print("FAILED:" if failures else "ok", failures)
sys.exit(1 if failures else 0)
