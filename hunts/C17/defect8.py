"""
Role-taker detection compares get_args(Role[...])[0] by identity with the resolved field type.
 * Role["Person"] (forward reference in the base list, needed whenever Person is defined later) is a ForwardRef,
   so the edge stays a plain Association and get_role_taker_associations_of_cls() answers None.
 * an unparameterised `class X(Role)` crashes the whole diagram construction with
   TypeError: 'NoneType' object is not subscriptable.
"""
from __future__ import annotations
import sys
from dataclasses import dataclass
from krrood.class_diagrams.class_diagram import ClassDiagram, HasRoleTaker
from krrood.class_diagrams.utils import Role


@dataclass
class Teacher(Role["Person"]):
    person: Person


@dataclass
class Person:
    name: str = ""


@dataclass
class Student(Role[Person]):
    person: Person


@dataclass
class Guest(Role):
    person: Person


rc = 0
d = ClassDiagram([Teacher, Student, Person])
for cls in (Student, Teacher):
    got = d.get_role_taker_associations_of_cls(cls)
    print(f"{cls.__name__}: expected a HasRoleTaker edge to Person, got {got!r} "
          f"(edge kinds: {[type(e).__name__ for e in d.get_out_edges(cls)]})")
    rc |= not isinstance(got, HasRoleTaker)
print("Guest(Role): expected a diagram (plain association or role taker)")
try:
    ClassDiagram([Guest, Person])
    print("got a diagram")
except TypeError as e:
    print("got TypeError:", e)
    rc = 1
sys.exit(rc)
