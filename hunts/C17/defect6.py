"""
Only ONE wrapper level is looked through. Optional[List[X]] and List[Optional[X]] give no association edge, the
endpoint is a typing construct, Optional[List[X]] is classified one-to-one (not a container, not one-to-many) and
is_enum raises TypeError for it. Tuple[int, X] silently takes the first argument only.
"""
from __future__ import annotations
import sys
from dataclasses import dataclass, field
from typing import Optional, List, Tuple
from krrood.class_diagrams.class_diagram import ClassDiagram


@dataclass
class Wheel:
    size: int = 0


@dataclass
class Car:
    spare: Optional[List[Wheel]] = None
    slots: List[Optional[Wheel]] = field(default_factory=list)
    tagged: Tuple[int, Wheel] = None


d = ClassDiagram([Car, Wheel])
edges = sorted(a.field.name for a in d.associations if a.source.clazz is Car)
print("expected association edges Car -> Wheel for fields ['slots', 'spare', 'tagged']")
print("got                                                ", edges)
for f in d.get_wrapped_class(Car).fields:
    try:
        enum_ = f.is_enum
    except TypeError as e:
        enum_ = f"TypeError({e})"
    print(f"  {f.name}: optional={f.is_optional} container={f.is_container} endpoint={f.type_endpoint!r} "
          f"one_to_one={f.is_one_to_one_relationship} one_to_many={f.is_one_to_many_relationship} is_enum={enum_}")
sys.exit(0 if edges == ["slots", "spare", "tagged"] else 1)
