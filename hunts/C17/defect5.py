"""
Optional is only recognised in the spelling Optional[X] / Union[X, None].
 * `X | None` (PEP 604, types.UnionType) is not optional, its endpoint is the union object -> no association edge,
   is_enum raises TypeError.
 * `Union[None, X]` (== Optional[X]) is optional but contained_type takes args[0] == NoneType -> the field is
   classified builtin with endpoint NoneType and there is no association edge.
"""
from __future__ import annotations
import sys
from dataclasses import dataclass
from typing import Optional, Union
from krrood.class_diagrams.class_diagram import ClassDiagram


@dataclass
class Engine:
    power: int = 0


@dataclass
class Car:
    a: Optional[Engine] = None
    b: Engine | None = None
    c: Union[None, Engine] = None


assert Union[None, Engine] == Optional[Engine]
d = ClassDiagram([Car, Engine])
edges = sorted(a.field.name for a in d.associations if a.source.clazz is Car)
print("expected association edges Car -> Engine for fields ['a', 'b', 'c']")
print("got                                                ", edges)
for f in d.get_wrapped_class(Car).fields:
    try:
        enum_ = f.is_enum
    except TypeError as e:
        enum_ = f"TypeError({e})"
    print(f"  {f.name}: optional={f.is_optional} endpoint={f.type_endpoint!r} builtin={f.is_builtin_type} "
          f"one_to_one={f.is_one_to_one_relationship} is_enum={enum_}")
sys.exit(0 if edges == ["a", "b", "c"] else 1)
