"""
The forward-reference fallback repairs only ONE missing name (the one carried by the first NameError).
A class with two forward references to classes that are not part of the diagram (both exist in loaded modules,
so manually_search_for_class_name could find each of them) cannot be put into a diagram at all: NameError.
Also: a WrappedClass used without a diagram (as test_wrapped_field.py does) raises AttributeError on any
forward reference instead of searching the loaded modules.
"""
import sys, types, textwrap
from dataclasses import fields
from krrood.class_diagrams.class_diagram import ClassDiagram, WrappedClass


def module(name, src):
    m = types.ModuleType(name)
    sys.modules[name] = m
    exec(textwrap.dedent(src), m.__dict__)
    return m


geometry = module("geometry", """
    from dataclasses import dataclass
    @dataclass
    class Position:
        x: float = 0.0
    @dataclass
    class Orientation:
        w: float = 1.0
""")
annotations_ = module("annotations_", """
    from __future__ import annotations
    from dataclasses import dataclass
    from typing import Optional, TYPE_CHECKING
    if TYPE_CHECKING:
        from geometry import Position, Orientation
    @dataclass
    class OneRef:
        position: Optional[Position] = None
    @dataclass
    class TwoRefs:
        position: Optional[Position] = None
        orientation: Optional[Orientation] = None
""")

rc = 0
d = ClassDiagram([annotations_.OneRef])  # one missing name: works
print("one forward reference outside the diagram :", d.get_wrapped_class(annotations_.OneRef).fields[0].type_endpoint)
print("expected for TwoRefs: a diagram with one node, fields resolved to geometry.Position / geometry.Orientation")
try:
    d = ClassDiagram([annotations_.TwoRefs])
    print("got:", [f.type_endpoint for f in d.get_wrapped_class(annotations_.TwoRefs).fields])
except NameError as e:
    print("got: NameError:", e)
    rc = 1

print("expected for a stand-alone WrappedClass(OneRef): position resolved to geometry.Position")
try:
    print("got:", WrappedClass(clazz=annotations_.OneRef).fields[0].type_endpoint)
except AttributeError as e:
    print("got: AttributeError:", e)
    rc = 1
sys.exit(rc)
