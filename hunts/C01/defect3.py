"""
A plain Python bool as a condition (ConditionType = Union[SymbolicExpression, bool, Predicate]) is always taken
as true, also when it is False. It is wrapped in a Literal, and a variable that takes its value from its
domain always reports "not false". The same holds for a bool-valued variable used as a condition, and a
@symbolic_function called with concrete arguments (it then returns a concrete bool).

  entity(x, x.a == 0, False)       -> returns P0            (expected nothing)
  entity(x, not_(False))           -> returns nothing        (expected every x)
  entity(x, x.a >= 1, ok(0))       -> returns P1, P2         (expected nothing, ok(0) is False)
  entity(b, b) / entity(b, not_(b))  for b in [True, False] -> [True, False] / []
  or_(x.a == 0, False)             -> AttributeError: 'bool' object has no attribute '_unique_variables_'

Property clause: "nothing that violates the conditions is ever returned" / "nothing ... is ever missing".
"""
import sys
from dataclasses import dataclass

from krrood.entity_query_language.entity import entity, let, not_, or_
from krrood.entity_query_language.predicate import symbolic_function
from krrood.entity_query_language.quantify_entity import an


@dataclass(eq=False)
class P:
    a: int

    def __repr__(self):
        return f"P{self.a}"


@symbolic_function
def ok(v):
    return v > 0


ps = [P(0), P(1), P(2)]
failed = False


def check(name, build, expected):
    global failed
    try:
        got = sorted(set(map(repr, build().evaluate())))
    except Exception as e:  # noqa
        got = f"raised {type(e).__name__}: {e}"
    good = got == expected
    failed |= not good
    print(f"{name}\n   expected {expected}\n   got      {got}   {'ok' if good else 'VIOLATION'}")


def X():
    return let(P, ps, "x")


def q1():
    x = X()
    return an(entity(x, x.a == 0, False))


def q2():
    x = X()
    return an(entity(x, not_(False)))


def q3():
    x = X()
    return an(entity(x, x.a >= 1, ok(0)))


def q4():
    b = let(bool, [True, False], "b")
    return an(entity(b, b))


def q5():
    b = let(bool, [True, False], "b")
    return an(entity(b, not_(b)))


def q6():
    x = X()
    return an(entity(x, or_(x.a == 0, False)))


check("entity(x, x.a == 0, False)", q1, [])
check("entity(x, not_(False))", q2, ["P0", "P1", "P2"])
check("entity(x, x.a >= 1, ok(0))   # ok(0) is the Python value False", q3, [])
check("entity(b, b) for b in [True, False]", q4, ["True"])
check("entity(b, not_(b)) for b in [True, False]", q5, ["False"])
check("entity(x, or_(x.a == 0, False))", q6, ["P0"])
sys.exit(1 if failed else 0)
