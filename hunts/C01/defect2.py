"""
or_(A, B) over the same variable (the else-if form) never looks at B for a binding for which A produces
no result at all. flatten(x.items) over an EMPTY collection produces no result, so
or_(flatten(x.items) == 1, x.a == 0) loses every x with x.a == 0 and no items. Swapping the sides of the
or_ gives the right answer.

Property clause: "nothing that satisfies them is ever missing", quantifier: "empty collections".
"""
import sys
from dataclasses import dataclass, field
from typing import List

from krrood.entity_query_language.entity import entity, let, or_, flatten
from krrood.entity_query_language.quantify_entity import an


@dataclass(eq=False)
class P:
    a: int
    items: List[int] = field(default_factory=list)

    def __repr__(self):
        return f"P{self.a}"


ps = [P(0, []), P(1, [1]), P(2, [5])]
expected = ["P0", "P1"]


def q(swapped):
    x = let(P, ps, "x")
    sides = [flatten(x.items) == 1, x.a == 0]
    if swapped:
        sides.reverse()
    return an(entity(x, or_(*sides)))


got = sorted(set(map(repr, q(False).evaluate())))
got_swapped = sorted(set(map(repr, q(True).evaluate())))
print("or_(flatten(x.items) == 1, x.a == 0)  expected", expected, "got", got)
print("or_(x.a == 0, flatten(x.items) == 1)  expected", expected, "got", got_swapped)
sys.exit(0 if got == expected and got_swapped == expected else 1)
