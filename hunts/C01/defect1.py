"""
exists(y, C) raises KeyError whenever a result of C does not bind y, e.g. when an and_ inside C is decided
by a conjunct that does not mention y (and_ short-circuit) or the left side of an or_ is already true.

Property clause: "nothing that satisfies [the conditions] is ever missing" (first-order reading of exists).
"""
import sys
from dataclasses import dataclass

from krrood.entity_query_language.entity import entity, let, and_, or_, exists
from krrood.entity_query_language.quantify_entity import an


@dataclass(eq=False)
class P:
    a: int

    def __repr__(self):
        return f"P{self.a}"


xs = [P(0), P(1), P(2)]
ys = [P(0), P(1)]
failed = False


def check(name, build, expected):
    global failed
    try:
        got = sorted(set(map(repr, build().evaluate())))
    except Exception as e:  # noqa
        got = f"raised {type(e).__name__}: {e}"
    ok = got == expected
    failed |= not ok
    print(f"{name}\n   expected {expected}\n   got      {got}   {'ok' if ok else 'VIOLATION'}")


def q1():
    x, y = let(P, xs, "x"), let(P, ys, "y")
    # x is P1 and some y has a == 1   ->  [P1]
    return an(entity(x, exists(y, and_(x.a == 1, y.a == 1))))


def q1_swapped():
    x, y = let(P, xs, "x"), let(P, ys, "y")
    return an(entity(x, exists(y, and_(y.a == 1, x.a == 1))))


def q2():
    x, y = let(P, xs, "x"), let(P, ys, "y")
    # x already bound by the first conjunct
    return an(entity(x, x.a >= 0, exists(y, and_(x.a == 1, y.a == 1))))


def q3():
    x, y = let(P, xs, "x"), let(P, ys, "y")
    # x.a == 0 or some y has a == 1  -> every x
    return an(entity(x, x.a >= 0, exists(y, or_(x.a == 0, y.a == 1))))


check("exists(y, and_(x.a == 1, y.a == 1))", q1, ["P1"])
check("same, conjuncts swapped (works)", q1_swapped, ["P1"])
check("x bound first, exists(y, and_(x.a == 1, y.a == 1))", q2, ["P1"])
check("x bound first, exists(y, or_(x.a == 0, y.a == 1))", q3, ["P0", "P1", "P2"])
sys.exit(1 if failed else 0)
