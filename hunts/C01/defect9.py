"""
Second use of the same attribute expression object. An Attribute (any DomainMapping) node keeps its last truth
value in _is_false_, but only refreshes it when its CURRENT parent is a logical operator; when the node is
already bound it just replays the stored flag. Using one `f = x.flag` object once as an operand of a
comparison and once as a condition therefore mixes the two roles:

  f = x.flag
  set_of([x, y], y.flag == f, f)       returns (P0, P5) although P0.flag is False
                                        (f was bound as an operand, the flag is still the initial "not false")
  entity(x, not_(f), f == False)       returns nothing although P0 satisfies both conjuncts
                                        (the flag "false" set below not_ makes the comparator drop its operand)

Writing x.flag twice (two node objects) gives the right answers.

Property clause: soundness / completeness for "second use of the same object".
"""
import sys
from dataclasses import dataclass

from krrood.entity_query_language.entity import entity, set_of, let, not_
from krrood.entity_query_language.quantify_entity import an


@dataclass(eq=False)
class P:
    a: int
    flag: bool

    def __repr__(self):
        return f"P{self.a}"


xs = [P(0, False), P(1, True)]
ys = [P(5, False), P(6, True)]
failed = False

x, y = let(P, xs, "x"), let(P, ys, "y")
f = x.flag
got = sorted({(repr(r[x]), repr(r[y])) for r in an(set_of([x, y], y.flag == f, f)).evaluate()})
expected = [("P1", "P6")]
print("f = x.flag; set_of([x, y], y.flag == f, f)\n   expected", expected, "\n   got     ", got)
failed |= got != expected

x, y = let(P, xs, "x"), let(P, ys, "y")
got = sorted({(repr(r[x]), repr(r[y])) for r in an(set_of([x, y], y.flag == x.flag, x.flag)).evaluate()})
print("set_of([x, y], y.flag == x.flag, x.flag)   (two nodes)\n   expected", expected, "\n   got     ", got)
failed |= got != expected

x = let(P, xs, "x")
f = x.flag
got = sorted(set(map(repr, an(entity(x, not_(f), f == False)).evaluate())))
expected = ["P0"]
print("f = x.flag; entity(x, not_(f), f == False)\n   expected", expected, "\n   got     ", got)
failed |= got != expected
sys.exit(1 if failed else 0)
