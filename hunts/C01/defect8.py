"""
A symbolic method call (or index) whose ARGUMENT is itself a symbolic expression is not evaluated for the
argument: Call._apply_mapping_ passes the Attribute/Variable OBJECT to the method. A method such as

    def has_a(self, v): return self.a == v

then computes  int == Attribute  ->  a (truthy) Comparator object, so the condition x.has_a(y.a) holds for
EVERY pair (x, y). Methods that do arithmetic with the argument raise TypeError instead, and
x.items[y.a] raises "list indices must be integers or slices, not Attribute".

Property clause: "attribute access, indexing, calls"; soundness (rows that violate the condition are returned).
"""
import sys
from dataclasses import dataclass

from krrood.entity_query_language.entity import set_of, let
from krrood.entity_query_language.quantify_entity import an


@dataclass(eq=False)
class P:
    a: int

    def has_a(self, v):
        return self.a == v

    def __repr__(self):
        return f"P{self.a}"


xs = [P(0), P(1), P(2)]
ys = [P(0), P(1)]
x, y = let(P, xs, "x"), let(P, ys, "y")
expected = sorted((repr(p), repr(q)) for p in xs for q in ys if p.has_a(q.a))
try:
    got = sorted({(repr(r[x]), repr(r[y])) for r in an(set_of([x, y], x.has_a(y.a))).evaluate()})
except Exception as e:  # noqa
    got = f"raised {type(e).__name__}: {e}"
print("set_of([x, y], x.has_a(y.a))")
print("   expected", expected)
print("   got     ", got)
sys.exit(0 if got == expected else 1)
