"""
for_all(u, C) with two free variables x, y where C can be decided without looking at one of them
(and_ short-circuit / an or_ over different variables):

the candidate rows are computed for the first value of u only; a candidate in which the short-circuit left y
unbound stands for "every y". For the remaining values of u such a candidate is re-checked by looking at the
FIRST result of C only (ForAll.evaluate_condition), i.e. for one arbitrary y.

  for_all(u, not_(and_(x.a == u.a, y.a == u.a)))   returns (P1, P1) although u = P1 violates the condition
  for_all(u, or_(x.a == u.a, y.a == u.a))          misses (P0, P1)

Property clauses: soundness ("nothing that violates the conditions is ever returned") and completeness.
"""
import sys
from dataclasses import dataclass

from krrood.entity_query_language.entity import set_of, let, and_, or_, not_, for_all
from krrood.entity_query_language.quantify_entity import an


@dataclass(eq=False)
class P:
    a: int

    def __repr__(self):
        return f"P{self.a}"


xs = [P(0), P(1), P(2)]
ys = [P(0), P(1), P(2)]
us = [P(0), P(1)]
failed = False


def check(name, condition, oracle):
    global failed
    x, y, u = let(P, xs, "x"), let(P, ys, "y"), let(P, us, "u")
    expected = sorted((repr(p), repr(q)) for p in xs for q in ys if all(oracle(p, q, r) for r in us))
    got = sorted({(repr(row[x]), repr(row[y])) for row in an(set_of([x, y], condition(x, y, u))).evaluate()})
    good = got == expected
    failed |= not good
    print(f"{name}\n   expected {expected}\n   got      {got}")
    print(f"   extra {sorted(set(got) - set(expected))} missing {sorted(set(expected) - set(got))}"
          f"   {'ok' if good else 'VIOLATION'}")


check(
    "for_all(u, not_(and_(x.a == u.a, y.a == u.a)))",
    lambda x, y, u: for_all(u, not_(and_(x.a == u.a, y.a == u.a))),
    lambda p, q, r: not (p.a == r.a and q.a == r.a),
)
check(
    "for_all(u, or_(x.a == u.a, y.a == u.a))",
    lambda x, y, u: for_all(u, or_(x.a == u.a, y.a == u.a)),
    lambda p, q, r: p.a == r.a or q.a == r.a,
)
sys.exit(1 if failed else 0)
