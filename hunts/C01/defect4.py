"""
exists(...) and for_all(...) only ever produce TRUE results; for a binding that does not satisfy them they
produce nothing instead of a false result. Every operator that needs the false case of an operand therefore
goes wrong as soon as a quantified condition is not negated directly but sits below an and_/or_:

  not_(and_(exists(u, x.a == u.a), x.a == 1))           loses the x that have no witness
  not_(and_(for_all(u, x.a > u.a), x.a == 2))           loses the x for which the for_all is false
  not_(or_(x.a == 0, for_all(u, x.a > u.a)))            returns nothing
  not_(or_(exists(u, x.a == u.a), x.a == 5))            returns x that have a witness
  or_(exists(u, x.a == u.a), exists(u, x.a > u.a))      (same u on both sides -> else-if form) never tries
                                                        the right side for an x without a left witness

x is bound by a first conjunct everywhere, so this is not the "exists with other free variables" issue.

Property clauses: "nothing that violates the conditions is ever returned and nothing that satisfies them is ever
missing", "any nesting of and_/or_/not_" with exists/for_all.
"""
import sys
from dataclasses import dataclass

from krrood.entity_query_language.entity import entity, let, and_, or_, not_, exists, for_all
from krrood.entity_query_language.quantify_entity import an


@dataclass(eq=False)
class P:
    a: int

    def __repr__(self):
        return f"P{self.a}"


xs = [P(0), P(1), P(2), P(3)]
us = [P(0), P(1)]
failed = False


def check(name, condition, oracle):
    global failed
    x, u = let(P, xs, "x"), let(P, us, "u")
    expected = sorted(repr(p) for p in xs if oracle(p))
    try:
        got = sorted(set(map(repr, an(entity(x, x.a >= 0, condition(x, u))).evaluate())))
    except Exception as e:  # noqa
        got = f"raised {type(e).__name__}: {e}"
    good = got == expected
    failed |= not good
    print(f"{name}\n   expected {expected}\n   got      {got}   {'ok' if good else 'VIOLATION'}")


check(
    "not_(and_(exists(u, x.a == u.a), x.a == 1))",
    lambda x, u: not_(and_(exists(u, x.a == u.a), x.a == 1)),
    lambda p: not (any(p.a == q.a for q in us) and p.a == 1),
)
check(
    "not_(and_(x.a >= 1, exists(u, x.a == u.a)))",
    lambda x, u: not_(and_(x.a >= 1, exists(u, x.a == u.a))),
    lambda p: not (p.a >= 1 and any(p.a == q.a for q in us)),
)
check(
    "not_(and_(for_all(u, x.a > u.a), x.a == 2))",
    lambda x, u: not_(and_(for_all(u, x.a > u.a), x.a == 2)),
    lambda p: not (all(p.a > q.a for q in us) and p.a == 2),
)
check(
    "not_(or_(x.a == 0, for_all(u, x.a > u.a)))",
    lambda x, u: not_(or_(x.a == 0, for_all(u, x.a > u.a))),
    lambda p: not (p.a == 0 or all(p.a > q.a for q in us)),
)
check(
    "not_(or_(exists(u, x.a == u.a), x.a == 5))",
    lambda x, u: not_(or_(exists(u, x.a == u.a), x.a == 5)),
    lambda p: not (any(p.a == q.a for q in us) or p.a == 5),
)
check(
    "or_(exists(u, x.a == u.a), exists(u, x.a > u.a))",
    lambda x, u: or_(exists(u, x.a == u.a), exists(u, x.a > u.a)),
    lambda p: any(p.a == q.a for q in us) or any(p.a > q.a for q in us),
)
check(
    "or_(for_all(u, x.a < u.a), for_all(u, x.a > u.a))",
    lambda x, u: or_(for_all(u, x.a < u.a), for_all(u, x.a > u.a)),
    lambda p: all(p.a < q.a for q in us) or all(p.a > q.a for q in us),
)
sys.exit(1 if failed else 0)
