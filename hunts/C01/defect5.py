"""
for_all(u, exists(w, C(u, w)))  is evaluated as  exists(w, for_all(u, C(u, w))):
the witness w found for the FIRST value of u is stored in the candidate solution and is then required to work
for every other value of u as well. (not_(exists(u, for_all(w, ...))) is rewritten into the same shape.)

Property clause: "ordinary first-order reading of ... exists/for_all", completeness.
"""
import sys
from dataclasses import dataclass

from krrood.entity_query_language.entity import entity, let, not_, exists, for_all
from krrood.entity_query_language.quantify_entity import an


@dataclass(eq=False)
class P:
    a: int

    def __repr__(self):
        return f"P{self.a}"


xs = [P(0), P(1), P(2)]
us = [P(0), P(1)]
ws = [P(0), P(1)]
failed = False


def check(name, build, expected):
    global failed
    got = sorted(set(map(repr, build().evaluate())))
    good = got == expected
    failed |= not good
    print(f"{name}\n   expected {expected}\n   got      {got}   {'ok' if good else 'VIOLATION'}")


# every u in {0, 1} has some w in {0, 1} with another value -> the condition is true, every x is an answer
assert all(any(w.a != u.a for w in ws) for u in us)


def q1():
    x, u, w = let(P, xs, "x"), let(P, us, "u"), let(P, ws, "w")
    return an(entity(x, x.a >= 0, for_all(u, exists(w, w.a != u.a))))


def q2():
    x, u, w = let(P, xs, "x"), let(P, us, "u"), let(P, ws, "w")
    return an(entity(x, x.a >= 0, not_(exists(u, for_all(w, w.a == u.a)))))


check("for_all(u, exists(w, w.a != u.a))", q1, ["P0", "P1", "P2"])
check("not_(exists(u, for_all(w, w.a == u.a)))", q2, ["P0", "P1", "P2"])
sys.exit(1 if failed else 0)
