"""
== and != between two collection values are not Python's comparison: Comparator.apply_operation turns both
sides into SETS first. Order and multiplicity are lost, a dict is reduced to its keys, and a collection with
unhashable elements makes the whole query raise TypeError.

  x.pos == (1, 2)        also returns the object at (2, 1)
  x.items == [1, 2]      also returns [2, 1] and [1, 1, 2]
  x.d == {1: 'a'}        also returns {1: 'b'}
  x.pos != (1, 2)        misses the object at (2, 1)
  x.rows == [[1], [2]]   raises TypeError: unhashable type: 'list'

Property clause: "ordinary first-order reading of ... comparisons"; soundness and completeness.
"""
import sys
from dataclasses import dataclass, field
from typing import List, Tuple, Dict

from krrood.entity_query_language.entity import entity, let
from krrood.entity_query_language.quantify_entity import an


@dataclass(eq=False)
class P:
    a: int
    pos: Tuple[int, int] = (0, 0)
    items: List[int] = field(default_factory=list)
    d: Dict[int, str] = field(default_factory=dict)
    rows: List[List[int]] = field(default_factory=list)

    def __repr__(self):
        return f"P{self.a}"


ps = [
    P(0, (1, 2), [1, 2], {1: "a"}, [[1], [2]]),
    P(1, (2, 1), [2, 1], {1: "b"}, [[2]]),
    P(2, (7, 7), [1, 1, 2], {}, []),
]
failed = False


def check(name, condition, oracle):
    global failed
    x = let(P, ps, "x")
    expected = sorted(repr(p) for p in ps if oracle(p))
    try:
        got = sorted(set(map(repr, an(entity(x, condition(x))).evaluate())))
    except Exception as e:  # noqa
        got = f"raised {type(e).__name__}: {e}"
    good = got == expected
    failed |= not good
    print(f"{name}\n   expected {expected}\n   got      {got}   {'ok' if good else 'VIOLATION'}")


check("x.pos == (1, 2)", lambda x: x.pos == (1, 2), lambda p: p.pos == (1, 2))
check("x.pos != (1, 2)", lambda x: x.pos != (1, 2), lambda p: p.pos != (1, 2))
check("x.items == [1, 2]", lambda x: x.items == [1, 2], lambda p: p.items == [1, 2])
check("x.d == {1: 'a'}", lambda x: x.d == {1: "a"}, lambda p: p.d == {1: "a"})
check("x.rows == [[1], [2]]", lambda x: x.rows == [[1], [2]], lambda p: p.rows == [[1], [2]])
sys.exit(1 if failed else 0)
