"""
C18 defect 1: a value whose class is registered (or is a SubclassJSONSerializer) but which ALSO is an
instance of a leaf / list-like builtin (namedtuple, IntEnum, str- or list-mixin) is never given to its
serializer: to_json() tests `isinstance(obj, leaf_types)` / `isinstance(obj, list_like_classes)` first.
No type tag is written and the value comes back as a plain list / int / str.
"""
import collections
import http
import json
import sys

from krrood.adapters.json_serializer import (
    JSONSerializableTypeRegistry,
    SubclassJSONSerializer,
    JSON_TYPE_NAME,
    to_json,
    from_json,
)
from krrood.utils import get_full_class_name

failures = []


def round_trip(value):
    return from_json(json.loads(json.dumps(to_json(value))))


def check(label, value, tagged_class=None):
    tagged_class = tagged_class or type(value)
    serialised = to_json(value)
    probe = serialised[0] if isinstance(value, list) else serialised
    tagged = isinstance(probe, dict) and probe.get(
        JSON_TYPE_NAME
    ) == get_full_class_name(tagged_class)
    result = round_trip(value)
    same_type = type(result) is type(value) and (
        not isinstance(value, list) or type(result[0]) is type(value[0])
    )
    print(f"{label}: to_json -> {serialised!r}")
    print(f"   carries tag {get_full_class_name(tagged_class)!r}: {tagged}")
    print(
        f"   expected back {type(value).__name__} {value!r}, got {type(result).__name__} {result!r}"
    )
    if not (tagged and same_type and result == value):
        failures.append(label)


# (a) a registered third-party type that happens to be a tuple subclass
Point = collections.namedtuple("Point", "x y")
JSONSerializableTypeRegistry().register(
    Point,
    lambda p: {JSON_TYPE_NAME: get_full_class_name(Point), "x": p.x, "y": p.y},
    lambda data, **kwargs: Point(data["x"], data["y"]),
)
check("registered namedtuple", Point(1, 2))
check("list of registered namedtuples", [Point(1, 2)], Point)

# (b) a registered third-party type that is an int subclass (IntEnum)
JSONSerializableTypeRegistry().register(
    http.HTTPStatus,
    lambda s: {JSON_TYPE_NAME: get_full_class_name(http.HTTPStatus), "code": int(s)},
    lambda data, **kwargs: http.HTTPStatus(data["code"]),
)
check("registered IntEnum", http.HTTPStatus.OK)


# (c) a SubclassJSONSerializer that mixes in str
class Name(str, SubclassJSONSerializer):
    def to_json(self):
        return {**super().to_json(), "value": str(self)}

    @classmethod
    def _from_json(cls, data, **kwargs):
        return cls(data["value"])


check("SubclassJSONSerializer + str", Name("rex"))

if failures:
    print("VIOLATED for:", failures)
    sys.exit(1)
print("ok")
