"""
C18 borderline 6: the registry is looked up with the exact type(obj).  Registering a third-party base
type whose instances are always of a (platform) subclass - pathlib.Path -> PosixPath/WindowsPath - gives
ClassNotSerializableError for every real value, although to_json's other branches use isinstance.
"""
import json
import pathlib
import sys

from krrood.adapters.json_serializer import (
    JSONSerializableTypeRegistry,
    JSON_TYPE_NAME,
    to_json,
    from_json,
)

JSONSerializableTypeRegistry().register(
    pathlib.Path,
    lambda p: {JSON_TYPE_NAME: "pathlib.Path", "value": str(p)},
    lambda data, **kwargs: pathlib.Path(data["value"]),
)
value = pathlib.Path("a/b")
print("isinstance(value, registered type):", isinstance(value, pathlib.Path))
try:
    result = from_json(json.loads(json.dumps(to_json(value))))
except Exception as e:
    print(f"expected {value!r}, got {type(e).__name__}: {e}")
    sys.exit(1)
print("got", repr(result))
sys.exit(0 if result == value and type(result) is type(value) else 1)
