"""
C18 defect 4: the "does this class say how it is created from json" test reads
`target_cls._from_json.__func__`.  A subclass that defines _from_json as a staticmethod (legal, and it
worked before commit 68c0353) has a plain function there -> AttributeError (not even a
JSONSerializationError) instead of the object.
"""
import json
import sys
from dataclasses import dataclass

from krrood.adapters.json_serializer import SubclassJSONSerializer, to_json, from_json


@dataclass
class Marker(SubclassJSONSerializer):
    a: int

    def to_json(self):
        return {**super().to_json(), "a": self.a}

    @staticmethod
    def _from_json(data, **kwargs):
        return Marker(data["a"])


obj = Marker(1)
try:
    result = from_json(json.loads(json.dumps(to_json(obj))))
except Exception as e:
    print(f"expected {obj}, got {type(e).__name__}: {e}")
    sys.exit(1)
print("got", result)
sys.exit(0 if result == obj and type(result) is Marker else 1)
