"""
C18 defect 5: from_json forwards **kwargs to registered deserialisers
(`registered_json_deserializer(data, **kwargs)`), but the deserialiser the library itself registers for
uuid.UUID is `deserialize_uuid(data)` without **kwargs.  Any deserialisation that needs kwargs (see
test_with_kwargs) breaks as soon as a UUID is part of the value.
"""
import json
import sys
import uuid
from dataclasses import dataclass

from krrood.adapters.json_serializer import SubclassJSONSerializer, to_json, from_json


@dataclass
class Tagged(SubclassJSONSerializer):
    """An object with an id; 'owner' is not serialised and has to be supplied on load."""

    id: uuid.UUID
    owner: str = ""

    def to_json(self):
        return {**super().to_json(), "id": to_json(self.id)}

    @classmethod
    def _from_json(cls, data, **kwargs):
        return cls(id=from_json(data["id"], **kwargs), owner=kwargs["owner"])


u = uuid.UUID(int=7)
failed = False
try:
    r = from_json(json.loads(json.dumps(to_json(u))), owner="me")
    print("uuid with kwargs:", r)
    failed |= r != u
except Exception as e:
    print(f"uuid with kwargs: expected {u}, got {type(e).__name__}: {e}")
    failed = True

obj = Tagged(u, "me")
try:
    r = from_json(json.loads(json.dumps(to_json(obj))), owner="me")
    print("object holding a uuid:", r)
    failed |= r != obj
except Exception as e:
    print(f"object holding a uuid: expected {obj}, got {type(e).__name__}: {e}")
    failed = True
sys.exit(1 if failed else 0)
