"""
C18 defect 3: from_json(data, **kwargs) forwards kwargs to _from_json for a single object, but the list
branch (`[from_json(d) for d in data]`) drops them, so the same object that round-trips alone cannot be
round-tripped inside a list.  (Class is a copy of test_json_serializer.ClassThatNeedsKWARGS.)
"""
import json
import sys
from dataclasses import dataclass

from krrood.adapters.json_serializer import SubclassJSONSerializer, to_json, from_json


@dataclass
class NeedsKwargs(SubclassJSONSerializer):
    a: int
    b: float = 0

    def to_json(self):
        return {**super().to_json(), "a": self.a}

    @classmethod
    def _from_json(cls, data, **kwargs):
        return cls(a=data["a"], b=kwargs["b"])


obj = NeedsKwargs(1, 2.0)
single = from_json(json.loads(json.dumps(to_json(obj))), b=2.0)
print("single object:", single, single == obj)

try:
    in_list = from_json(json.loads(json.dumps(to_json([obj]))), b=2.0)
except Exception as e:
    print(f"list of it: expected [{obj}], got {type(e).__name__}: {e!r}")
    sys.exit(1)
print("list of it:", in_list)
sys.exit(0 if in_list == [obj] else 1)
