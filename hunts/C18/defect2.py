"""
C18 defect 2: the type tag is built from __module__ + __name__ (not __qualname__), so it is not fully
qualified for a class that is defined inside another class. Deserialisation either fails
(ClassNotFoundError) or - if the module has a top-level class of the same short name - silently builds
an instance of the WRONG class.
"""
import json
import sys
from dataclasses import dataclass

from krrood.adapters.json_serializer import (
    SubclassJSONSerializer,
    JSON_TYPE_NAME,
    to_json,
    from_json,
)


@dataclass
class Shape(SubclassJSONSerializer):
    size: int = 0

    def to_json(self):
        return {**super().to_json(), "size": self.size}

    @classmethod
    def _from_json(cls, data, **kwargs):
        return cls(size=data["size"])


class Drawing:
    @dataclass
    class Shape(Shape):  # a subclass (depth 2) that lives in the namespace of Drawing
        pass

    @dataclass
    class Stroke(Shape):
        pass


failed = False

value = Drawing.Shape(3)
serialised = to_json(value)
print("tag written:", serialised[JSON_TYPE_NAME])
print("expected   :", f"{Drawing.Shape.__module__}.{Drawing.Shape.__qualname__}")
result = from_json(json.loads(json.dumps(serialised)))
print(
    f"expected an instance of exactly {Drawing.Shape.__qualname__}, got {type(result).__qualname__}"
)
if type(result) is not Drawing.Shape:
    failed = True

value = Drawing.Stroke(3)
try:
    result = from_json(json.loads(json.dumps(to_json(value))))
    print("Drawing.Stroke came back as", type(result).__qualname__)
    failed = failed or type(result) is not Drawing.Stroke
except Exception as e:
    print(
        f"expected Drawing.Stroke(3) back, got {type(e).__name__}: {e}"
    )
    failed = True

sys.exit(1 if failed else 0)
