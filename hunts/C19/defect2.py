"""
The tag names an attribute whose lookup on the (importable) module fails with something that is not AttributeError:
a module-level __getattr__ (PEP 562) that imports lazily. Expected: ClassNotFoundError. Got: raw ModuleNotFoundError.
"""
import os
import sys
import tempfile

from krrood.adapters.json_serializer import JSONSerializationError, from_json, JSON_TYPE_NAME
from krrood.adapters.json_serializer import JSONSerializationError


def attempt(label, document, acceptable=(JSONSerializationError,)):
    """
    Deserialise `document`; return True when the outcome is one of the documented errors.
    """
    expected = " | ".join(c.__name__ for c in acceptable)
    try:
        result = from_json(document)
    except acceptable as error:
        print(f"  fine     {label}: {type(error).__name__}: {error}")
        return True
    except BaseException as error:  # SystemExit is a BaseException
        print(
            f"  VIOLATION {label}: expected {expected}, got {type(error).__name__}: {error}"
        )
        return False
    print(
        f"  VIOLATION {label}: expected {expected}, got a return value {result!r} of type {type(result).__name__}"
    )
    return False


directory = tempfile.mkdtemp()
sys.path.insert(0, directory)
with open(os.path.join(directory, "c19_lazy.py"), "w") as file:
    file.write(
        "import importlib\n"
        "_lazy = {'Fast': 'c19_optional_accelerator'}\n"
        "def __getattr__(name):\n"
        "    if name in _lazy:\n"
        "        return getattr(importlib.import_module(_lazy[name]), name)\n"
        "    if name == 'Table':\n"
        "        return _lazy[name]\n"
        "    raise AttributeError(name)\n"
    )

print("expected: a JSONSerializationError (ClassNotFoundError) when the name cannot be resolved in the module")
results = [
    attempt("lazy import fails (ImportError)", {JSON_TYPE_NAME: "c19_lazy.Fast"}),
    attempt("lazy lookup fails (KeyError)", {JSON_TYPE_NAME: "c19_lazy.Table"}),
    attempt("control: plain missing name", {JSON_TYPE_NAME: "c19_lazy.Other"}),
]
try:
    import six  # noqa: F401  (installed in the project's environment; a real-world instance of the same thing)
except ImportError:
    pass
else:
    import importlib.util

    if importlib.util.find_spec("_gdbm") is None:
        results.append(attempt("six.moves.dbm_gnu", {JSON_TYPE_NAME: "six.moves.dbm_gnu"}))
sys.exit(0 if all(results) else 1)
