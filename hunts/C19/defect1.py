"""
The tag names a module that exists but cannot be imported for a reason other than ImportError / ValueError.
Expected: UnknownModuleError (a JSONSerializationError). Got: the raw exception of the import, up to SystemExit.
"""
import os
import sys
import tempfile

from krrood.adapters.json_serializer import JSONSerializationError, from_json, JSON_TYPE_NAME
from krrood.adapters.json_serializer import UnknownModuleError


def attempt(label, document, acceptable=(JSONSerializationError,)):
    """
    Deserialise `document`; return True when the outcome is one of the documented errors.
    """
    expected = " | ".join(c.__name__ for c in acceptable)
    try:
        result = from_json(document)
    except acceptable as error:
        print(f"  fine     {label}: {type(error).__name__}: {error}")
        return True
    except BaseException as error:  # SystemExit is a BaseException
        print(
            f"  VIOLATION {label}: expected {expected}, got {type(error).__name__}: {error}"
        )
        return False
    print(
        f"  VIOLATION {label}: expected {expected}, got a return value {result!r} of type {type(result).__name__}"
    )
    return False


directory = tempfile.mkdtemp()
sys.path.insert(0, directory)
sources = {
    "c19_bad_syntax": "def broken(:\n",
    "c19_raises_runtime": "raise RuntimeError('needs a display')\n",
    "c19_raises_attribute": "import os\nos.does_not_exist\n",
    "c19_raises_key": "import os\nos.environ['C19_SURELY_NOT_SET']\n",
    "c19_exits": "import sys\nsys.exit(3)\n",
}
for name, source in sources.items():
    with open(os.path.join(directory, name + ".py"), "w") as file:
        file.write(source)

print("expected: UnknownModuleError for every module that cannot be imported")
results = [
    attempt(name, {JSON_TYPE_NAME: name + ".Thing"}, (UnknownModuleError,))
    for name in sources
]
# the same with nothing but the standard library: unittest/__main__.py runs the test program on import
sys.argv = [sys.argv[0]]
results.append(
    attempt(
        "unittest.__main__", {JSON_TYPE_NAME: "unittest.__main__.Thing"}, (UnknownModuleError,)
    )
)
# control
results.append(attempt("control: absent module", {JSON_TYPE_NAME: "c19_absent.Thing"}, (UnknownModuleError,)))
sys.exit(0 if all(results) else 1)
