"""
(minor) A type tag that is PRESENT but falsy and of the wrong JSON type (0, 0.0, false, [], {}) - or the empty
string - is reported as MissingTypeError ("Missing 'type' field in JSON data") while the same kind of value, when
truthy (1, 1.5, true, [1], {"a": 1}), is reported as InvalidTypeFormatError. The error does not identify the problem:
the field is there, its value is not a qualified class name.
"""
import json
import os
import sys

from krrood.adapters.json_serializer import JSONSerializationError, from_json, JSON_TYPE_NAME
from krrood.adapters.json_serializer import InvalidTypeFormatError, MissingTypeError


def attempt(label, document, acceptable=(JSONSerializationError,)):
    """
    Deserialise `document`; return True when the outcome is one of the documented errors.
    """
    expected = " | ".join(c.__name__ for c in acceptable)
    try:
        result = from_json(document)
    except acceptable as error:
        print(f"  fine     {label}: {type(error).__name__}: {error}")
        return True
    except BaseException as error:  # SystemExit is a BaseException
        print(
            f"  VIOLATION {label}: expected {expected}, got {type(error).__name__}: {error}"
        )
        return False
    print(
        f"  VIOLATION {label}: expected {expected}, got a return value {result!r} of type {type(result).__name__}"
    )
    return False


results = []
print("expected: InvalidTypeFormatError for a tag that is present but is not a qualified class name")
for text in ("0", "0.0", "false", "[]", "{}", '""', "1", "1.5", "true", "[1]", '{"a": 1}', '"x"'):
    document = json.loads('{"%s": %s}' % (JSON_TYPE_NAME, text))
    results.append(attempt("tag " + text, document, (InvalidTypeFormatError,)))
print("expected: MissingTypeError when there is no tag")
results.append(attempt("no tag", {}, (MissingTypeError,)))
sys.exit(0 if all(results) else 1)
