"""
The tag names a SubclassJSONSerializer subclass whose _from_json is not a classmethod object.
from_json looks at `target_cls._from_json.__func__` and so fails with AttributeError:
 - for a staticmethod _from_json (which is perfectly deserialisable; it worked before the
   'class without _from_json' check was added),
 - for a _from_json written without @classmethod, and for `_from_json = None` (not deserialisable:
   expected ClassNotDeserializableError).
"""
import os
import sys

from krrood.adapters.json_serializer import JSON_TYPE_NAME
from krrood.adapters.json_serializer import (
    SubclassJSONSerializer,
    ClassNotDeserializableError,
    from_json,
    to_json,
)


class WithStaticMethod(SubclassJSONSerializer):
    @staticmethod
    def _from_json(data, **kwargs):
        return WithStaticMethod()


class ForgotClassMethod(SubclassJSONSerializer):
    def _from_json(self, data, **kwargs):
        return ForgotClassMethod()


class OptedOut(SubclassJSONSerializer):
    _from_json = None


failures = 0
document = to_json(WithStaticMethod())
print("WithStaticMethod: expected an instance of WithStaticMethod")
try:
    result = from_json(document)
    print("  got", result)
    failures += not isinstance(result, WithStaticMethod)
except Exception as error:
    print(f"  VIOLATION got {type(error).__name__}: {error}")
    failures += 1

for clazz in (ForgotClassMethod, OptedOut):
    print(f"{clazz.__name__}: expected ClassNotDeserializableError")
    try:
        result = from_json(to_json(clazz()))
        print("  VIOLATION got a value", result)
        failures += 1
    except ClassNotDeserializableError as error:
        print("  fine", error)
    except Exception as error:
        print(f"  VIOLATION got {type(error).__name__}: {error}")
        failures += 1
sys.exit(1 if failures else 0)
