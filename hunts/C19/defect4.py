"""
The tag names an ABSTRACT serialisable class (something that cannot be created from json).
Expected: ClassNotDeserializableError. Got: None returned silently (abstract _from_json with an empty body),
or a raw TypeError / NotImplementedError.
"""
import abc
import os
import sys
from dataclasses import dataclass

from krrood.adapters.json_serializer import JSONSerializationError, from_json, JSON_TYPE_NAME
from krrood.adapters.json_serializer import (
    SubclassJSONSerializer,
    ClassNotDeserializableError,
    from_json,
)



def attempt(label, document, acceptable=(JSONSerializationError,)):
    """
    Deserialise `document`; return True when the outcome is one of the documented errors.
    """
    expected = " | ".join(c.__name__ for c in acceptable)
    try:
        result = from_json(document)
    except acceptable as error:
        print(f"  fine     {label}: {type(error).__name__}: {error}")
        return True
    except BaseException as error:  # SystemExit is a BaseException
        print(
            f"  VIOLATION {label}: expected {expected}, got {type(error).__name__}: {error}"
        )
        return False
    print(
        f"  VIOLATION {label}: expected {expected}, got a return value {result!r} of type {type(result).__name__}"
    )
    return False


class Shape(SubclassJSONSerializer, abc.ABC):
    """Abstract base: every concrete shape has to say how it is created from json."""

    @classmethod
    @abc.abstractmethod
    def _from_json(cls, data, **kwargs): ...


class Shape2(SubclassJSONSerializer, abc.ABC):
    @classmethod
    @abc.abstractmethod
    def _from_json(cls, data, **kwargs):
        raise NotImplementedError


@dataclass
class Animal(SubclassJSONSerializer, abc.ABC):
    name: str

    @abc.abstractmethod
    def speak(self): ...

    @classmethod
    def _from_json(cls, data, **kwargs):
        return cls(name=data["name"])


@dataclass
class Dog(Animal):
    def speak(self):
        return "woof"


print("expected: ClassNotDeserializableError for a tag that names an abstract class")
results = [
    attempt(name, {JSON_TYPE_NAME: f"{__name__}.{name}", "name": "x"}, (ClassNotDeserializableError,))
    for name in ("Shape", "Shape2", "Animal")
]
control = from_json({JSON_TYPE_NAME: f"{__name__}.Dog", "name": "x"})
print("  control: Dog ->", control)
results.append(isinstance(control, Dog))
sys.exit(0 if all(results) else 1)
