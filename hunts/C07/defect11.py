"""
C07 defect 11: queries the translator cannot express that are not rejected with an EQLTranslationError but crash
with an unrelated exception:
  (a) an(set_of([box], ...))                -> AttributeError ('SetOf' object has no attribute 'selected_variable')
  (b) box.lid == part (part a variable over a mapped class with a non-empty domain) -> sqlalchemy ArgumentError
      (DomainValueExtractor looks for `.id`, DAOs have `database_id`, so the DAO instance itself is bound)
"""

import importlib, os, sys, tempfile, textwrap


def bootstrap(model_source, tag):
    """Write the model into a module, let ORMatic generate its DAO classes, create an in-memory database."""
    import krrood

    pass  # (the agent pinned its worktree path here)
    from dataclasses import is_dataclass
    from sqlalchemy.orm import Session, configure_mappers
    from krrood.class_diagrams.class_diagram import ClassDiagram
    from krrood.entity_query_language.predicate import Symbol
    from krrood.ormatic.ormatic import ORMatic
    from krrood.ormatic.utils import classes_of_module, create_engine

    directory = tempfile.mkdtemp(prefix="c07_hunt_")
    sys.path.insert(0, directory)
    with open(os.path.join(directory, f"{tag}_model.py"), "w") as f:
        f.write(textwrap.dedent(model_source))
    model = importlib.import_module(f"{tag}_model")
    classes = [c for c in classes_of_module(model) if is_dataclass(c)] + [Symbol]
    ormatic = ORMatic(class_dependency_graph=ClassDiagram(sorted(classes, key=lambda c: c.__name__)))
    ormatic.make_all_tables()
    with open(os.path.join(directory, f"{tag}_orm.py"), "w") as f:
        ormatic.to_sqlalchemy_file(f)
    orm = importlib.import_module(f"{tag}_orm")
    configure_mappers()
    engine = create_engine("sqlite:///:memory:")
    orm.Base.metadata.create_all(engine)
    return model, orm, Session(engine)


def persist(session, objects):
    from krrood.ormatic.dao import to_dao, ToDAOState

    state = ToDAOState()  # one state, an object referenced from several others becomes one row
    session.add_all([to_dao(o, state) for o in objects])
    session.commit()


FAILED = []


def check(label, make_query, key, **domains):
    """
    make_query(**domains) builds the query. It is evaluated in memory with the given domains and translated with
    empty domains (the database is the domain); the keys of both answers are compared.
    """
    from krrood.ormatic.eql_interface import eql_to_sql, EQLTranslationError

    in_memory = sorted(key(o) for o in make_query(**domains).evaluate())
    try:
        translator = eql_to_sql(make_query(**{k: [] for k in domains}), session)
    except EQLTranslationError as e:
        print(f"[ok] {label}: rejected with {type(e).__name__}")
        return
    except Exception as e:
        print(f"[VIOLATION] {label}: in memory {in_memory}; translation crashed with {type(e).__name__}: {str(e)[:150]}")
        FAILED.append(label)
        return
    try:
        rows = translator.evaluate()
        from_sql = sorted(key(r.from_dao()) for r in rows)
    except Exception as e:
        print(f"[VIOLATION] {label}: accepted by eql_to_sql, in memory {in_memory}; "
              f"executing the statement raised {type(e).__name__}: {str(e)[:120]}")
        print("    WHERE/JOIN:", str(translator.sql_query).replace("\n", " ")[-300:])
        FAILED.append(label)
        return
    verdict = "ok" if set(in_memory) == set(from_sql) else "VIOLATION"
    print(f"[{verdict}] {label}: expected (in memory) {in_memory}   got (SQL) {from_sql}")
    if verdict != "ok":
        print("    ...", str(translator.sql_query).replace("\n", " ")[-330:])
        FAILED.append(label)


def finish():
    print("violations:", FAILED if FAILED else "none")
    sys.exit(1 if FAILED else 0)


from krrood.entity_query_language.entity import let, entity, set_of, and_, or_, in_, contains
from krrood.entity_query_language.quantify_entity import an, the

MODEL = '''
    from __future__ import annotations
    from dataclasses import dataclass
    from krrood.entity_query_language.predicate import Symbol

    @dataclass
    class Part(Symbol):
        name: str

    @dataclass
    class Box(Symbol):
        tag: str
        lid: Part
        base: Part

    @dataclass
    class Shelf(Symbol):
        tag: str
        item: Part
        support: Part
'''

m, orm, session = bootstrap(MODEL, "defect11")

p1, p2, p3 = m.Part("p1"), m.Part("p2"), m.Part("p3")
boxes = [m.Box("b1", lid=p1, base=p3), m.Box("b2", lid=p3, base=p3)]
persist(session, boxes)

from krrood.ormatic.eql_interface import eql_to_sql, EQLTranslationError


def attempt(label, query):
    try:
        eql_to_sql(query, session)
        print(f"[?] {label}: accepted")
    except EQLTranslationError as e:
        print(f"[ok] {label}: rejected with {type(e).__name__}")
    except Exception as e:
        print(f"[VIOLATION] {label}: expected EQLTranslationError, got {type(e).__name__}: {str(e)[:120]}")
        FAILED.append(label)


box = let(m.Box, [], name="box")
attempt("an(set_of([box], box.tag == 'b1'))", an(set_of([box], box.tag == "b1")))

box = let(m.Box, boxes, name="box")
part = let(m.Part, [p1, p3], name="part")
query = an(entity(box, box.lid == part))
print("in memory:", sorted(b.tag for b in query.evaluate()))
box = let(m.Box, [], name="box")
part = let(m.Part, [p1, p3], name="part")
attempt("an(entity(box, box.lid == part))", an(entity(box, box.lid == part)))
finish()
