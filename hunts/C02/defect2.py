"""
C02 - a condition that is a plain variable or a constant is considered TRUE whenever the variable is still unbound,
whatever its value: and_(cond, False) does not filter, a boolean variable used as a condition lets False through and
not_(b) yields nothing. The very same variable is judged by its value once another condition has bound it, so the
result depends on the order of the conjuncts.
"""
import sys
from dataclasses import dataclass

from krrood.entity_query_language.entity import let, entity, set_of, and_, not_
from krrood.entity_query_language.quantify_entity import an


@dataclass
class Item:
    a: int


failures = []


def check(label, got, expected):
    print(label)
    print("  expected:", expected)
    print("  got     :", got)
    if sorted(got) != sorted(expected):
        failures.append(label)


items = [Item(0), Item(1), Item(2)]

x = let(Item, items, name="x")
check(
    "an(entity(x, x.a > 0, False))   (bool is a documented ConditionType)",
    [r.a for r in an(entity(x, x.a > 0, False)).evaluate()],
    [],
)

b = let(bool, [True, False], name="b")
check("an(entity(b, b))", list(an(entity(b, b)).evaluate()), [True])

b = let(bool, [True, False], name="b")
check("an(entity(b, not_(b)))", list(an(entity(b, not_(b))).evaluate()), [False])

b = let(bool, [True, False], name="b")
x = let(Item, items[:1], name="x")
check(
    "an(set_of([b, x], and_(b, x.a >= 0)))",
    [r[b] for r in an(set_of([b, x], and_(b, x.a >= 0))).evaluate()],
    [True],
)

# same conjunction, b bound first by a comparison: now the value of b is respected
b = let(bool, [True, False], name="b")
check(
    "an(entity(b, and_(b != None, b)))   (for contrast: b already bound when used as a condition)",
    list(an(entity(b, and_(b != None, b))).evaluate()),
    [True],
)

if failures:
    print("DEFECT in:", failures)
    sys.exit(1)
print("no violation")
