"""
C02 - a domain that lists the same object twice is enumerated WITH the duplicate the first time the variable is
enumerated and WITHOUT it every later time (inner loop re-entered for the next outer value, second evaluate()).
The number of results per satisfying assignment therefore depends on the position in the nested loop and on history,
and the(...) fails on the first evaluation and succeeds on the second.
"""
import sys

from krrood.entity_query_language.entity import let, entity, set_of
from krrood.entity_query_language.quantify_entity import an, the
from krrood.entity_query_language.failures import MultipleSolutionFound

failures = []

# ---- 1. multiplicities inside ONE evaluation depend on the outer loop position
x = let(int, [1, 2], name="x")
y = let(int, [5, 5], name="y")  # the same object twice
query = an(set_of([x, y], x < y))
first = sorted((r[x], r[y]) for r in query.evaluate())
per_x = {v: sum(1 for a, _ in first if a == v) for v in (1, 2)}
print("x in [1, 2], y in [5, 5], condition x < y")
print("  expected: the same number of results for x=1 and for x=2 (1 each as a set, or 2 each as a multiset)")
print("  got     :", first, "->", per_x)
if per_x[1] != per_x[2]:
    failures.append("results per outer value differ: %s" % per_x)

# ---- 2. the same query object evaluated again gives a different count
second = sorted((r[x], r[y]) for r in query.evaluate())
print("  second evaluate():", second)
if len(second) != len(first):
    failures.append("first evaluation %d results, second evaluation %d" % (len(first), len(second)))

# ---- 3. the(...) raises on the first evaluation and succeeds on the second
z = let(int, [5, 5, 7], name="z")
unique = the(entity(z, z == 5))
outcomes = []
for _ in range(2):
    try:
        outcomes.append(repr(unique.evaluate()))
    except MultipleSolutionFound:
        outcomes.append("MultipleSolutionFound")
print("the(entity(z, z == 5)) with z in [5, 5, 7], evaluated twice")
print("  expected: the same outcome both times")
print("  got     :", outcomes)
if outcomes[0] != outcomes[1]:
    failures.append("the(...) outcome changes between evaluations: %s" % outcomes)

if failures:
    print("DEFECT:", "; ".join(failures))
    sys.exit(1)
print("no violation")
