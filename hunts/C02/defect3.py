"""
C02 - an attribute / method-call expression object that is used twice in one query, once as an operand of a comparison
and once as a condition of its own (x.flag, x.is_ok()), reports a stale truth value: a bound DomainMapping node
answers with the flag it stored the last time it was evaluated directly under a logical operator (never, or for
another element) instead of with the truth of its current value. Depending on the shape, non-satisfying assignments
are returned or satisfying ones are dropped.
"""
import sys
from dataclasses import dataclass

from krrood.entity_query_language.entity import let, entity, set_of, and_, or_, not_
from krrood.entity_query_language.quantify_entity import an


@dataclass
class Item:
    a: int
    flag: bool


failures = []


def check(label, got, expected):
    print(label)
    print("  expected:", expected)
    print("  got     :", got)
    if sorted(got) != sorted(expected):
        failures.append(label)


xs = [Item(0, False), Item(1, True), Item(2, False)]
ys = [Item(0, False), Item(1, True), Item(2, True)]

# ---- extra solutions: a contradiction is satisfiable
x = let(Item, xs, name="x")
flag = x.flag
check(
    "flag = x.flag; an(entity(x, flag == False, flag))",
    [r.a for r in an(entity(x, flag == False, flag)).evaluate()],
    [i.a for i in xs if i.flag == False and i.flag],
)

# ---- the same query with two separate x.flag expressions is right
x = let(Item, xs, name="x")
check(
    "an(entity(x, x.flag == False, x.flag))   (for contrast: two expression objects)",
    [r.a for r in an(entity(x, x.flag == False, x.flag)).evaluate()],
    [],
)

# ---- dropped solutions: else-if over the same variables, every solution is lost
x = let(Item, xs, name="x")
y = let(Item, ys, name="y")
flag = x.flag
query = an(set_of([x, y], or_(and_(flag, y.a > 0), flag == y.flag)))
check(
    "flag = x.flag; an(set_of([x, y], or_(and_(flag, y.a > 0), flag == y.flag)))",
    [(r[x].a, r[y].a) for r in query.evaluate()],
    [(i.a, j.a) for i in xs for j in ys if (i.flag and j.a > 0) or i.flag == j.flag],
)

# ---- dropped solution with a negated atom
x = let(Item, xs, name="x")
flag = x.flag
check(
    "flag = x.flag; an(entity(x, flag == False, not_(flag)))",
    [r.a for r in an(entity(x, flag == False, not_(flag))).evaluate()],
    [i.a for i in xs if i.flag == False and not i.flag],
)

if failures:
    print("DEFECT in:", failures)
    sys.exit(1)
print("no violation")
