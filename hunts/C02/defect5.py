"""
C02 (side finding, boolean method call used as an atom) - a symbolic method call whose ARGUMENT is symbolic passes the
expression object itself to the method instead of its value. `self.a > <Attribute>` then builds a (truthy) Comparator
inside the user's method, so the atom is true for every assignment and the query returns the full cross product.
"""
import sys
from dataclasses import dataclass

from krrood.entity_query_language.entity import let, set_of
from krrood.entity_query_language.quantify_entity import an


@dataclass
class Item:
    a: int

    def bigger_than(self, k):
        return self.a > k


items = [Item(0), Item(1), Item(2)]
x = let(Item, items, name="x")
y = let(Item, items, name="y")
got = sorted((r[x].a, r[y].a) for r in an(set_of([x, y], x.bigger_than(y.a))).evaluate())
expected = sorted((i.a, j.a) for i in items for j in items if i.bigger_than(j.a))
print("an(set_of([x, y], x.bigger_than(y.a)))")
print("  expected:", expected)
print("  got     :", got)
if got != expected:
    print("DEFECT: the call atom does not constrain the assignments")
    sys.exit(1)
print("no violation")
