"""
C02 - == and != between two collection values are evaluated on set(left) and set(right): order and multiplicity are
ignored, so assignments that do not satisfy the comparison are returned ((1, 2) == (2, 1), (1, 1, 2) == (1, 2)), the
ones that satisfy != are dropped, and collections with unhashable elements cannot be compared at all.
"""
import sys
from dataclasses import dataclass

from krrood.entity_query_language.entity import let, entity, set_of
from krrood.entity_query_language.quantify_entity import an


@dataclass
class Point:
    name: str
    position: tuple


failures = []


def check(label, thunk, expected):
    print(label)
    print("  expected:", expected)
    try:
        got = thunk()
    except Exception as e:
        got = "%s: %s" % (type(e).__name__, e)
    print("  got     :", got)
    if not isinstance(got, list) or sorted(got) != sorted(expected):
        failures.append(label)


points = [Point("a", (1, 2)), Point("b", (2, 1)), Point("c", (1, 1, 2)), Point("d", (3,))]

p = let(Point, points, name="p")
check(
    "an(entity(p, p.position == (1, 2)))",
    lambda: [r.name for r in an(entity(p, p.position == (1, 2))).evaluate()],
    [q.name for q in points if q.position == (1, 2)],
)

p = let(Point, points, name="p")
check(
    "an(entity(p, p.position != (1, 2)))",
    lambda: [r.name for r in an(entity(p, p.position != (1, 2))).evaluate()],
    [q.name for q in points if q.position != (1, 2)],
)

p = let(Point, points, name="p")
q = let(Point, points, name="q")
check(
    "an(set_of([p, q], p.position == q.position))",
    lambda: [(r[p].name, r[q].name) for r in an(set_of([p, q], p.position == q.position)).evaluate()],
    [(i.name, j.name) for i in points for j in points if i.position == j.position],
)

grids = [Point("g", ([0, 1], [1, 0]))]
p = let(Point, grids, name="p")
check(
    "an(entity(p, p.position == ([0, 1], [1, 0])))   (rows are lists)",
    lambda: [r.name for r in an(entity(p, p.position == ([0, 1], [1, 0]))).evaluate()],
    ["g"],
)

if failures:
    print("DEFECT in:", failures)
    sys.exit(1)
print("no violation")
