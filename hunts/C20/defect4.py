"""
C20 / defect 4 - a reclaimed instance does not disappear from the symbol graph (nothing removes its node when it
dies, only the next `evaluate()` of some query sweeps). The relation inference of ontomatic walks the graph and
uses the dead node as the source of an inferred relation: relating two LIVE objects raises AttributeError.

Property clause: "the instance is reclaimed, disappears ... from the symbol graph, and leaves no bookkeeping entries
behind".
"""
from __future__ import annotations

import gc
import sys
import traceback
import weakref
from dataclasses import dataclass, field
from typing import List

from krrood.entity_query_language.predicate import Symbol
from krrood.entity_query_language.symbol_graph import SymbolGraph
from krrood.ontomatic.property_descriptor.mixins import TransitiveProperty
from krrood.ontomatic.property_descriptor.property_descriptor import PropertyDescriptor


@dataclass(eq=False)
class Organization(Symbol):
    name: str
    part_of: List[Organization] = field(default_factory=list)


@dataclass
class PartOf(PropertyDescriptor, TransitiveProperty): ...


Organization.part_of = PartOf(Organization, "part_of")

SymbolGraph().clear()
SymbolGraph()

a = Organization("a")
b = Organization("b")
x = Organization("x")
x.part_of = [a]  # x -> a
reference = weakref.ref(x)
del x  # the program drops x, nothing else refers to it
gc.collect()
print("x reclaimed:", reference() is None)
graph = SymbolGraph()
print("nodes of dead instances in the symbol graph:", sum(w.instance is None for w in graph.wrapped_instances),
      " relations with a dead end:", sum(r.source.instance is None or r.target.instance is None
                                         for r in graph.relations()), "  (expected 0 and 0)")
try:
    a.part_of = [b]  # a -> b : two live objects
except AttributeError:
    traceback.print_exc()
    print("expected: a.part_of == [b]; got: AttributeError because the relation x -> a of the dead x is still in "
          "the symbol graph and x -> b is inferred from it")
    print("VIOLATION")
    sys.exit(1)
print("a.part_of =", [o.name for o in a.part_of])
print("ok")
