"""
C20 / defect 1 - objects that are part of a reference cycle are never released by a domain-less variable,
no matter how often the query is evaluated again and the garbage collector is run.

Property clause: "Once the program drops its references to a Symbol instance ... the instance is reclaimed,
disappears from domain-less variables and from the symbol graph".
"""
from __future__ import annotations

import gc
import sys
import weakref
from dataclasses import dataclass, field
from typing import List, Optional

from krrood.entity_query_language.entity import let, entity
from krrood.entity_query_language.predicate import Symbol
from krrood.entity_query_language.quantify_entity import an
from krrood.entity_query_language.symbol_graph import SymbolGraph


@dataclass(eq=False)
class Node(Symbol):
    name: str
    parent: Optional[Node] = None
    children: List[Node] = field(default_factory=list)


SymbolGraph().clear()
SymbolGraph()

query = an(entity(let(Node, domain=None)))  # the program keeps (only) the query


def history(with_back_reference: bool):
    a = Node("a")
    b = Node("b", parent=a)
    if with_back_reference:
        a.children.append(b)  # a <-> b : an ordinary parent / child model
    references = [weakref.ref(a), weakref.ref(b)]
    assert len(list(query.evaluate())) == 2
    del a, b  # the program drops every reference to the instances (and to the results)
    outcomes = []
    for _ in range(3):
        gc.collect()
        results = len(list(query.evaluate()))
        gc.collect()
        alive = sum(reference() is not None for reference in references)
        outcomes.append((results, alive))
    list(query.evaluate())
    return outcomes, len(SymbolGraph().wrapped_instances)


control, control_nodes = history(with_back_reference=False)
print("without a cycle : (results, alive) after each re-evaluation:", control, "graph nodes:", control_nodes)
cyclic, cyclic_nodes = history(with_back_reference=True)
print("with a cycle    : (results, alive) after each re-evaluation:", cyclic, "graph nodes:", cyclic_nodes)
print("expected        : [(0, 0), (0, 0), (0, 0)] graph nodes: 0   (at the latest from the second re-evaluation on)")

if control[-1] != (0, 0):
    print("UNEXPECTED: the control history already fails")
    sys.exit(2)
if cyclic[-1] != (0, 0) or cyclic_nodes != 0:
    print("VIOLATION: the dropped instances are still alive, are still results of the domain-less query and still "
          "have nodes in the symbol graph")
    sys.exit(1)
print("ok")
