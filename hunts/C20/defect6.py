"""
C20 / defect 6 (same root cause as defect 4, growth variant) - the bookkeeping of a reclaimed instance is only
removed by the sweep at the START of `ResultQuantifier.evaluate()`:
 (a) a program that creates, relates and discards Symbol instances without evaluating a query grows the symbol graph
     without bound;
 (b) instances that are released BY an evaluation (the refresh of the cached domains happens after the sweep) keep
     their entries until yet another evaluation.

Property clauses: "leaves no bookkeeping entries behind; creating, relating, querying and discarding objects in a
loop does not grow any krrood-held structure".
"""
from __future__ import annotations

import gc
import sys
from dataclasses import dataclass, field
from typing import List

from krrood.entity_query_language.entity import let, entity
from krrood.entity_query_language.predicate import Symbol
from krrood.entity_query_language.quantify_entity import an
from krrood.entity_query_language.symbol_graph import SymbolGraph
from krrood.ontomatic.property_descriptor.mixins import TransitiveProperty
from krrood.ontomatic.property_descriptor.property_descriptor import PropertyDescriptor


@dataclass(eq=False)
class Organization(Symbol):
    name: str
    part_of: List[Organization] = field(default_factory=list)


@dataclass
class PartOf(PropertyDescriptor, TransitiveProperty): ...


Organization.part_of = PartOf(Organization, "part_of")

SymbolGraph().clear()
SymbolGraph()


def sizes():
    graph = SymbolGraph()
    return dict(
        nodes=len(graph._instance_graph.nodes()),
        edges=len(graph._instance_graph.edges()),
        per_class=sum(len(v) for v in graph._class_to_wrapped_instances.values()),
        relation_index=sum(len(v) for v in graph._relation_index.values()),
    )


violated = False

# (a) no query is evaluated
for _ in range(100):
    a, b = Organization("a"), Organization("b")
    a.part_of.append(b)
    del a, b
gc.collect()
got = sizes()
print("(a) 100 x create two, relate, drop; expected all sizes 0, got", got)
violated |= any(got.values())

# (b) a query is evaluated, everything is dropped, the query is evaluated once more
query = an(entity(let(Organization, domain=None)))
list(query.evaluate())  # sweeps (a)
a, b = Organization("a"), Organization("b")
a.part_of.append(b)
assert len(list(query.evaluate())) == 2
del a, b
gc.collect()
assert len(list(query.evaluate())) == 0  # the instances are gone for the query ...
gc.collect()
got = sizes()
print("(b) after drop + evaluation (0 results); expected all sizes 0, got", got)  # ... but not for the graph
violated |= any(got.values())

if violated:
    print("VIOLATION: entries of reclaimed instances are left in the symbol graph")
    sys.exit(1)
print("ok")
