"""
C20 / defect 5 (same root cause as defect 4, silent variant) - the node and the relations of a reclaimed instance
stay in the symbol graph, the transitive inference follows them and writes `None` into a field of a live object.
"""
from __future__ import annotations

import gc
import sys
import weakref
from dataclasses import dataclass, field
from typing import List

from krrood.entity_query_language.predicate import Symbol
from krrood.entity_query_language.symbol_graph import SymbolGraph
from krrood.ontomatic.property_descriptor.mixins import TransitiveProperty
from krrood.ontomatic.property_descriptor.property_descriptor import PropertyDescriptor


@dataclass(eq=False)
class Organization(Symbol):
    name: str
    part_of: List[Organization] = field(default_factory=list)

    def __repr__(self):
        return self.name


@dataclass
class PartOf(PropertyDescriptor, TransitiveProperty): ...


Organization.part_of = PartOf(Organization, "part_of")

SymbolGraph().clear()
SymbolGraph()

s = Organization("s")
t = Organization("t")
z = Organization("z")
t.part_of.append(z)  # t -> z
t.part_of.remove(z)  # the program takes z out again ...
reference = weakref.ref(z)
del z  # ... and drops it
gc.collect()
print("z reclaimed:", reference() is None)
s.part_of.append(t)  # s -> t
print("expected: s.part_of == [t]")
print("got     : s.part_of ==", list(s.part_of))
if list(s.part_of) != [t]:
    print("VIOLATION: the reclaimed z is still a node of the symbol graph, s -> z was inferred from its relation")
    sys.exit(1)
print("ok")
