"""
C20 / defect 3 - a rule that is extended (refinement / alternative / next_rule) after it has been evaluated once -
the ripple-down workflow the rule API is made for - never refreshes the domain-less variables that the added branch
introduces. The first evaluation after the extension caches their instances for good: dropped instances stay alive
and stay in the results, instances created later are not seen.

Property clause: "Once the program drops its references to a Symbol instance ... the instance is reclaimed,
disappears from domain-less variables".
"""
from __future__ import annotations

import gc
import sys
import weakref
from dataclasses import dataclass

from krrood.entity_query_language.conclusion import Add
from krrood.entity_query_language.entity import let, entity, inference
from krrood.entity_query_language.predicate import Symbol
from krrood.entity_query_language.quantify_entity import an
from krrood.entity_query_language.rule import refinement
from krrood.entity_query_language.symbol_graph import SymbolGraph


@dataclass(eq=False)
class Body(Symbol):
    name: str


@dataclass(eq=False)
class Tag(Symbol):
    name: str


@dataclass(eq=False)
class View(Symbol):
    body: Body


@dataclass(eq=False)
class TaggedView(View):
    tag: Tag = None


SymbolGraph().clear()
SymbolGraph()


def build(evaluate_before_extending: bool):
    body = let(Body, domain=None)
    views = let(View, domain=None)
    rule = an(entity(views, body.name != ""))
    with rule:
        Add(views, inference(View)(body=body))
    if evaluate_before_extending:
        list(rule.evaluate())
    tag = let(Tag, domain=None)
    with rule:
        with refinement(tag.name == body.name):
            Add(views, inference(TaggedView)(body=body, tag=tag))
    return rule


def history(evaluate_before_extending: bool):
    a_body = Body("b0")
    rule = build(evaluate_before_extending)
    a_tag = Tag("b0")
    reference = weakref.ref(a_tag)
    with_tag = [type(v).__name__ for v in rule.evaluate()]
    del a_tag  # the only tag is dropped
    gc.collect()
    after_drop = [type(v).__name__ for v in rule.evaluate()]
    gc.collect()
    alive = reference() is not None
    del a_body
    return with_tag, after_drop, alive


# `python defect3.py --control` runs the same history with the rule completed before its first evaluation (passes)
evaluate_before_extending = "--control" not in sys.argv
expected = (["TaggedView"], ["View"], False)
got = history(evaluate_before_extending)
print("rule evaluated before it was extended:", evaluate_before_extending)
print("expected (results with the tag, results after the tag was dropped, tag alive):", expected)
print("got                                                                          :", got)
if got != expected:
    print("VIOLATION: the dropped Tag is still alive and still a value of the domain-less variable of the added branch")
    sys.exit(1)
print("ok")
