"""
C20 / defect 2 - a query whose selected variable is inferred (the documented rule form
`an(entity(inference(T)(...), conditions))`) stores every intermediate result of every evaluation in a process-wide
functools.lru_cache. The instances bound in these results are never released, they keep coming back as values of
domain-less variables, and the cache grows with every evaluation of the same long-lived query.

Property clauses: "the instance is reclaimed, disappears from domain-less variables", "creating, relating, querying
and discarding objects in a loop does not grow any krrood-held structure".
"""
from __future__ import annotations

import gc
import sys
import weakref
from dataclasses import dataclass

from krrood.entity_query_language.entity import let, entity, inference
from krrood.entity_query_language.predicate import Symbol
from krrood.entity_query_language.quantify_entity import an
from krrood.entity_query_language.symbol_graph import SymbolGraph
from krrood.entity_query_language.symbolic import QueryObjectDescriptor


@dataclass(eq=False)
class Body(Symbol):
    name: str


@dataclass(eq=False)
class View(Symbol):
    body: Body


SymbolGraph().clear()
SymbolGraph()

body = let(Body, domain=None)
rule = an(entity(inference(View)(body=body), body.name != ""))  # long-lived, kept by the program
cache = QueryObjectDescriptor.variable_is_bound_or_its_children_are_bound

references = []
rows = []
for round_ in range(4):
    bodies = [Body(f"{round_}-{i}") for i in range(3)]  # no reference cycles anywhere
    references += [weakref.ref(b) for b in bodies]
    views = list(rule.evaluate())
    number_of_results = len(views)
    del bodies, views  # drop the instances and the results
    gc.collect()
    list(rule.evaluate())  # gives krrood the chance to sweep and to refresh its domains
    gc.collect()
    alive = sum(reference() is not None for reference in references)
    rows.append((number_of_results, alive, cache.cache_info().currsize))

print("per round (results, dropped bodies still alive, entries in the lru_cache):")
for row in rows:
    print("   got", row, "  expected (3, 0, <constant>)")

violated = any(row[0] != 3 or row[1] != 0 for row in rows) or rows[-1][2] > rows[0][2]

# the cache is the holder: emptying it releases everything at the next evaluation
cache.cache_clear()
list(rule.evaluate())
gc.collect()
print("after cache_clear() + one evaluation, alive:", sum(reference() is not None for reference in references))

if violated:
    print("VIOLATION: bodies of earlier rounds are kept alive by "
          "QueryObjectDescriptor.variable_is_bound_or_its_children_are_bound.cache, reappear in later evaluations "
          "and the cache grows with every evaluation")
    sys.exit(1)
print("ok")
