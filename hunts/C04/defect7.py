"""
C04 defect 7 - fields declared with init=False are written to the DAO but never read back.

ORMatic generates columns / relationships for them and to_dao fills them, but from_dao only considers names that are
parameters of __init__ (_collect_scalar_kwargs / _collect_relationship_kwargs: `if ... not in argument_names: continue`).
"""
import dataclasses, importlib, inspect, os, sys, tempfile, textwrap, warnings

warnings.simplefilter("ignore")


def build(model_source, name, extra_classes=(), extra_mappings=()):
    """Write the model to a temporary module, let ORMatic generate the DAO module for it, import both."""
    from sqlalchemy.orm import configure_mappers
    from krrood.class_diagrams.class_diagram import ClassDiagram
    from krrood.ormatic.dao import AlternativeMapping
    from krrood.ormatic.ormatic import ORMatic

    directory = tempfile.mkdtemp(prefix="c04_hunt_")
    with open(os.path.join(directory, f"{name}.py"), "w") as f:
        f.write(textwrap.dedent(model_source))
    sys.path.insert(0, directory)
    model = importlib.import_module(name)
    own = [c for _, c in inspect.getmembers(model, inspect.isclass) if c.__module__ == name]
    classes = [c for c in own if dataclasses.is_dataclass(c) and not issubclass(c, AlternativeMapping)]
    mappings = [c for c in own if issubclass(c, AlternativeMapping)]
    ormatic = ORMatic(
        class_dependency_graph=ClassDiagram(classes + list(extra_classes)),
        alternative_mappings=mappings + list(extra_mappings),
    )
    ormatic.make_all_tables()
    with open(os.path.join(directory, f"{name}_dao.py"), "w") as f:
        ormatic.to_sqlalchemy_file(f)
    daos = importlib.import_module(f"{name}_dao")
    configure_mappers()
    return model, daos

from krrood.ormatic.dao import to_dao

m, d = build('''
    from __future__ import annotations
    from dataclasses import dataclass, field
    from typing_extensions import List, Optional


    @dataclass
    class Leaf:
        v: int = 0


    @dataclass
    class Counter:
        start: int = 0
        count: int = field(default=0, init=False)
        last: Optional[Leaf] = field(default=None, init=False)
        seen: List[Leaf] = field(default_factory=list, init=False)

        def visit(self, leaf):
            self.count += 1
            self.last = leaf
            self.seen.append(leaf)
''', "c04_defect7_model")

c = m.Counter(1)
c.visit(m.Leaf(7))
dao = to_dao(c)
print("DAO      :", dao)
restored = dao.from_dao()
print("expected :", c)
print("got      :", restored)
if restored != c:
    print("VIOLATION: init=False fields (stored in the DAO) are reset to their defaults")
    sys.exit(1)
