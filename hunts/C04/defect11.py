"""
C04 defect 11 (error path / process-wide state) - a failed lookup is cached for ever.

krrood.ormatic.dao.get_dao_class (and get_alternative_mapping) are @lru_cache'd and also cache the answer None.
If to_dao is called once for a class BEFORE the generated DAO module has been imported (NoDAOFoundError - fine),
every later to_dao of that class keeps failing although the DAO class now exists; the same happens to an object that
merely contains such an instance.
"""
import dataclasses, importlib, inspect, os, sys, tempfile, textwrap, warnings

warnings.simplefilter("ignore")


from krrood.ormatic import dao as dao_module
from krrood.class_diagrams.class_diagram import ClassDiagram
from krrood.ormatic.ormatic import ORMatic
from sqlalchemy.orm import configure_mappers

directory = tempfile.mkdtemp(prefix="c04_hunt_")
with open(os.path.join(directory, "c04_defect11_model.py"), "w") as f:
    f.write(textwrap.dedent('''
        from dataclasses import dataclass


        @dataclass
        class Leaf:
            v: int = 0
    '''))
sys.path.insert(0, directory)
import c04_defect11_model as m

try:
    dao_module.to_dao(m.Leaf(1))
    print("unexpected: conversion worked without a DAO module")
except dao_module.NoDAOFoundError as e:
    print("before the DAO module exists  :", type(e).__name__, "(expected)")

ormatic = ORMatic(class_dependency_graph=ClassDiagram([m.Leaf]))
ormatic.make_all_tables()
with open(os.path.join(directory, "c04_defect11_model_dao.py"), "w") as f:
    ormatic.to_sqlalchemy_file(f)
import c04_defect11_model_dao as d
configure_mappers()
print("DAO class now exists          :", d.LeafDAO, "for", d.LeafDAO.original_class())

try:
    restored = dao_module.to_dao(m.Leaf(1)).from_dao()
    print("after importing the DAO module:", restored)
except dao_module.NoDAOFoundError as e:
    print("after importing the DAO module: VIOLATION", type(e).__name__, e)
    sys.exit(1)
