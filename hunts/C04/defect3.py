"""
C04 defect 3 - below an inherited DAO the alternative mapping is only applied in ONE direction for fields that keep
their name in the mapping.

For a subclass of an alternatively mapped class, to_dao sends the inherited part through
ParentMapping.create_instance, but from_dao takes every inherited column / relationship whose name is also a constructor
argument RAW from the DAO (init_args = {**base_kwargs, **kwargs}; base_kwargs is only filled for arguments the DAO does
not have) - create_from_dao is bypassed.
"""
import dataclasses, importlib, inspect, os, sys, tempfile, textwrap, warnings

warnings.simplefilter("ignore")


def build(model_source, name, extra_classes=(), extra_mappings=()):
    """Write the model to a temporary module, let ORMatic generate the DAO module for it, import both."""
    from sqlalchemy.orm import configure_mappers
    from krrood.class_diagrams.class_diagram import ClassDiagram
    from krrood.ormatic.dao import AlternativeMapping
    from krrood.ormatic.ormatic import ORMatic

    directory = tempfile.mkdtemp(prefix="c04_hunt_")
    with open(os.path.join(directory, f"{name}.py"), "w") as f:
        f.write(textwrap.dedent(model_source))
    sys.path.insert(0, directory)
    model = importlib.import_module(name)
    own = [c for _, c in inspect.getmembers(model, inspect.isclass) if c.__module__ == name]
    classes = [c for c in own if dataclasses.is_dataclass(c) and not issubclass(c, AlternativeMapping)]
    mappings = [c for c in own if issubclass(c, AlternativeMapping)]
    ormatic = ORMatic(
        class_dependency_graph=ClassDiagram(classes + list(extra_classes)),
        alternative_mappings=mappings + list(extra_mappings),
    )
    ormatic.make_all_tables()
    with open(os.path.join(directory, f"{name}_dao.py"), "w") as f:
        ormatic.to_sqlalchemy_file(f)
    daos = importlib.import_module(f"{name}_dao")
    configure_mappers()
    return model, daos

from krrood.ormatic.dao import to_dao

m, d = build('''
    from __future__ import annotations
    from dataclasses import dataclass, field
    from typing_extensions import List
    from krrood.ormatic.dao import AlternativeMapping


    @dataclass
    class Leaf:
        v: int


    @dataclass
    class Shape:
        name: str
        leaves: List[Leaf] = field(default_factory=list)


    @dataclass
    class ShapeMapping(AlternativeMapping[Shape]):
        """Stores the name upper-cased and the leaves in reversed order (same field names as the original)."""
        name: str
        leaves: List[Leaf]

        @classmethod
        def create_instance(cls, obj):
            return cls(obj.name.upper(), list(reversed(obj.leaves)))

        def create_from_dao(self):
            return Shape(self.name.lower(), list(reversed(self.leaves)))


    @dataclass
    class Box(Shape):
        size: int = 0
''', "c04_defect3_model")

failed = False
for obj in (m.Shape("abc", [m.Leaf(1), m.Leaf(2)]), m.Box("abc", [m.Leaf(1), m.Leaf(2)], 3)):
    restored = to_dao(obj).from_dao()
    ok = restored == obj
    print(f"{obj}\n   -> {restored}   {'ok' if ok else 'VIOLATION (mapping not undone)'}")
    failed |= not ok
sys.exit(1 if failed else 0)
