"""
C04 defect 1 - FromDAOState.memo is keyed by id() of a TEMPORARY parent DAO that is not kept alive.

DataAccessObject._build_base_kwargs_for_alternative_parent creates `parent_dao = base()`, converts it with
`parent_dao.from_dao(state=state)` (which stores memo[id(parent_dao)]) and drops it. The next temporary parent DAO can get
the same id(), `state.has()` answers True and the base values of ANOTHER object are used: distinct objects get the
inherited field values of the first one.
Deterministic on CPython when the domain class does not share the allocator size class of the DAO (e.g. slots=True
dataclass with >= 3 fields); it also occurs sporadically with ordinary dataclasses (see notes.md).
"""
import dataclasses, importlib, inspect, os, sys, tempfile, textwrap, warnings

warnings.simplefilter("ignore")


def build(model_source, name, extra_classes=(), extra_mappings=()):
    """Write the model to a temporary module, let ORMatic generate the DAO module for it, import both."""
    from sqlalchemy.orm import configure_mappers
    from krrood.class_diagrams.class_diagram import ClassDiagram
    from krrood.ormatic.dao import AlternativeMapping
    from krrood.ormatic.ormatic import ORMatic

    directory = tempfile.mkdtemp(prefix="c04_hunt_")
    with open(os.path.join(directory, f"{name}.py"), "w") as f:
        f.write(textwrap.dedent(model_source))
    sys.path.insert(0, directory)
    model = importlib.import_module(name)
    own = [c for _, c in inspect.getmembers(model, inspect.isclass) if c.__module__ == name]
    classes = [c for c in own if dataclasses.is_dataclass(c) and not issubclass(c, AlternativeMapping)]
    mappings = [c for c in own if issubclass(c, AlternativeMapping)]
    ormatic = ORMatic(
        class_dependency_graph=ClassDiagram(classes + list(extra_classes)),
        alternative_mappings=mappings + list(extra_mappings),
    )
    ormatic.make_all_tables()
    with open(os.path.join(directory, f"{name}_dao.py"), "w") as f:
        ormatic.to_sqlalchemy_file(f)
    daos = importlib.import_module(f"{name}_dao")
    configure_mappers()
    return model, daos

from krrood.ormatic.dao import to_dao

m, d = build('''
    from __future__ import annotations
    from dataclasses import dataclass, field
    from typing_extensions import List
    from krrood.ormatic.dao import AlternativeMapping


    @dataclass(slots=True)
    class Parent:
        base: float = 0


    @dataclass
    class ParentMapping(AlternativeMapping[Parent]):
        derived: str

        @classmethod
        def create_instance(cls, obj):
            return cls(str(obj.base))

        def create_from_dao(self):
            return Parent(float(self.derived))


    @dataclass(slots=True)
    class Child(Parent):
        one: float = 0
        two: float = 0
        three: float = 0


    @dataclass
    class Holder:
        things: List[Parent] = field(default_factory=list)
''', "c04_defect1_model")

holder = m.Holder([m.Child(base=1.0, one=10.0), m.Child(base=2.0, one=20.0), m.Child(base=3.0, one=30.0)])
dao = to_dao(holder)
print("DAO side     :", [(t.derived, t.one) for t in dao.things])
restored = dao.from_dao()
print("expected     :", holder.things)
print("got          :", restored.things)
if restored != holder:
    print("VIOLATION: distinct children of an alternatively mapped parent received the inherited values of another object")
    sys.exit(1)
print("no violation observed")
