"""
C04 defect 6 - an EMPTY collection is not converted: the restored object holds the DAO's own InstrumentedList.

FromDAOState.parse_collection: `if not value: return value, []`. The restored domain object and the DAO then share
one SQLAlchemy collection: wrong concrete type, and appending a domain object to the restored object writes a domain
object into the DAO's relationship.
"""
import dataclasses, importlib, inspect, os, sys, tempfile, textwrap, warnings

warnings.simplefilter("ignore")


def build(model_source, name, extra_classes=(), extra_mappings=()):
    """Write the model to a temporary module, let ORMatic generate the DAO module for it, import both."""
    from sqlalchemy.orm import configure_mappers
    from krrood.class_diagrams.class_diagram import ClassDiagram
    from krrood.ormatic.dao import AlternativeMapping
    from krrood.ormatic.ormatic import ORMatic

    directory = tempfile.mkdtemp(prefix="c04_hunt_")
    with open(os.path.join(directory, f"{name}.py"), "w") as f:
        f.write(textwrap.dedent(model_source))
    sys.path.insert(0, directory)
    model = importlib.import_module(name)
    own = [c for _, c in inspect.getmembers(model, inspect.isclass) if c.__module__ == name]
    classes = [c for c in own if dataclasses.is_dataclass(c) and not issubclass(c, AlternativeMapping)]
    mappings = [c for c in own if issubclass(c, AlternativeMapping)]
    ormatic = ORMatic(
        class_dependency_graph=ClassDiagram(classes + list(extra_classes)),
        alternative_mappings=mappings + list(extra_mappings),
    )
    ormatic.make_all_tables()
    with open(os.path.join(directory, f"{name}_dao.py"), "w") as f:
        ormatic.to_sqlalchemy_file(f)
    daos = importlib.import_module(f"{name}_dao")
    configure_mappers()
    return model, daos

from krrood.ormatic.dao import to_dao

m, d = build('''
    from __future__ import annotations
    from dataclasses import dataclass, field
    from typing_extensions import List


    @dataclass
    class Leaf:
        v: int = 0


    @dataclass
    class Box:
        items: List[Leaf] = field(default_factory=list)
''', "c04_defect6_model")

failed = False
full = to_dao(m.Box([m.Leaf(1)])).from_dao()
print("non-empty box : items type", type(full.items).__name__)
box = m.Box([])
dao = to_dao(box)
restored = dao.from_dao()
print("empty box     : items type", type(restored.items).__name__, "(expected list)")
if type(restored.items) is not list:
    failed = True
if restored.items is dao.items:
    print("VIOLATION: restored.items IS dao.items (shared with the DAO)")
    failed = True
restored.items.append(m.Leaf(5))
print("after restored.items.append(Leaf(5)): dao.items =", list(dao.items))
if any(isinstance(x, m.Leaf) for x in dao.items):
    print("VIOLATION: a domain object ended up inside the DAO's relationship collection")
    try:
        dao.from_dao()
    except Exception as e:
        print("  and the DAO can no longer be converted:", type(e).__name__, e)
    failed = True
sys.exit(1 if failed else 0)
