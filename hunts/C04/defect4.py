"""
C04 defect 4 - Set[...] / Tuple[..., ...] fields of mapped objects come back as lists.

WrappedField.container_types accepts list, set, tuple and Sequence; every such field becomes a
`Mapped[List[...]]` relationship and from_dao / apply_circular_fixes always hand a plain list to the object.
"""
import dataclasses, importlib, inspect, os, sys, tempfile, textwrap, warnings

warnings.simplefilter("ignore")


def build(model_source, name, extra_classes=(), extra_mappings=()):
    """Write the model to a temporary module, let ORMatic generate the DAO module for it, import both."""
    from sqlalchemy.orm import configure_mappers
    from krrood.class_diagrams.class_diagram import ClassDiagram
    from krrood.ormatic.dao import AlternativeMapping
    from krrood.ormatic.ormatic import ORMatic

    directory = tempfile.mkdtemp(prefix="c04_hunt_")
    with open(os.path.join(directory, f"{name}.py"), "w") as f:
        f.write(textwrap.dedent(model_source))
    sys.path.insert(0, directory)
    model = importlib.import_module(name)
    own = [c for _, c in inspect.getmembers(model, inspect.isclass) if c.__module__ == name]
    classes = [c for c in own if dataclasses.is_dataclass(c) and not issubclass(c, AlternativeMapping)]
    mappings = [c for c in own if issubclass(c, AlternativeMapping)]
    ormatic = ORMatic(
        class_dependency_graph=ClassDiagram(classes + list(extra_classes)),
        alternative_mappings=mappings + list(extra_mappings),
    )
    ormatic.make_all_tables()
    with open(os.path.join(directory, f"{name}_dao.py"), "w") as f:
        ormatic.to_sqlalchemy_file(f)
    daos = importlib.import_module(f"{name}_dao")
    configure_mappers()
    return model, daos

from krrood.ormatic.dao import to_dao

m, d = build('''
    from __future__ import annotations
    from dataclasses import dataclass, field
    from typing_extensions import List, Set, Tuple


    @dataclass(frozen=True)
    class Item:
        name: str


    @dataclass
    class Box:
        as_list: List[Item] = field(default_factory=list)
        as_set: Set[Item] = field(default_factory=set)
        as_tuple: Tuple[Item, ...] = ()
''', "c04_defect4_model")

a, b = m.Item("a"), m.Item("b")
box = m.Box([a, b], {a, b}, (a, b))
restored = to_dao(box).from_dao()
print("expected:", box)
print("got     :", restored)
failed = False
for f in ("as_list", "as_set", "as_tuple"):
    t0, t1 = type(getattr(box, f)), type(getattr(restored, f))
    print(f"  {f}: {t0.__name__} -> {t1.__name__}")
    failed |= t0 is not t1
if restored != box:
    print("VIOLATION: round trip result is not equal to the original")
    failed = True
sys.exit(1 if failed else 0)
