"""
C04 defect 2 - a GRANDCHILD of an alternatively mapped class loses the fields that only exist behind the mapping.

to_dao scans the whole MRO for the nearest alternatively mapped DAO ancestor, from_dao
(_build_base_kwargs_for_alternative_parent) only looks at `self.__class__.__bases__[0]`.
"""
import dataclasses, importlib, inspect, os, sys, tempfile, textwrap, warnings

warnings.simplefilter("ignore")


def build(model_source, name, extra_classes=(), extra_mappings=()):
    """Write the model to a temporary module, let ORMatic generate the DAO module for it, import both."""
    from sqlalchemy.orm import configure_mappers
    from krrood.class_diagrams.class_diagram import ClassDiagram
    from krrood.ormatic.dao import AlternativeMapping
    from krrood.ormatic.ormatic import ORMatic

    directory = tempfile.mkdtemp(prefix="c04_hunt_")
    with open(os.path.join(directory, f"{name}.py"), "w") as f:
        f.write(textwrap.dedent(model_source))
    sys.path.insert(0, directory)
    model = importlib.import_module(name)
    own = [c for _, c in inspect.getmembers(model, inspect.isclass) if c.__module__ == name]
    classes = [c for c in own if dataclasses.is_dataclass(c) and not issubclass(c, AlternativeMapping)]
    mappings = [c for c in own if issubclass(c, AlternativeMapping)]
    ormatic = ORMatic(
        class_dependency_graph=ClassDiagram(classes + list(extra_classes)),
        alternative_mappings=mappings + list(extra_mappings),
    )
    ormatic.make_all_tables()
    with open(os.path.join(directory, f"{name}_dao.py"), "w") as f:
        ormatic.to_sqlalchemy_file(f)
    daos = importlib.import_module(f"{name}_dao")
    configure_mappers()
    return model, daos

from krrood.ormatic.dao import to_dao

m, d = build('''
    from __future__ import annotations
    from dataclasses import dataclass
    from krrood.ormatic.dao import AlternativeMapping


    @dataclass
    class Parent:
        base: float = 0


    @dataclass
    class ParentMapping(AlternativeMapping[Parent]):
        derived: str

        @classmethod
        def create_instance(cls, obj):
            return cls(str(obj.base))

        def create_from_dao(self):
            return Parent(float(self.derived))


    @dataclass
    class Child(Parent):
        one: float = 0


    @dataclass
    class GrandChild(Child):
        two: float = 0
''', "c04_defect2_model")

failed = False
for obj in (m.Parent(4.0), m.Child(4.0, 40.0), m.GrandChild(4.0, 40.0, 400.0)):
    dao = to_dao(obj)
    restored = dao.from_dao()
    ok = restored == obj and type(restored) is type(obj)
    print(f"{obj}  (dao.derived={dao.derived!r})  ->  {restored}   {'ok' if ok else 'VIOLATION'}")
    failed |= not ok
sys.exit(1 if failed else 0)
