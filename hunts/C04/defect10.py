"""
C04 defect 10 - "any depth": a simple chain of ~250 objects cannot be converted (RecursionError).

to_dao and from_dao recurse through 4-5 Python frames per reference, so the default recursion limit of 1000 is hit at
a reference depth of roughly 210-250.
"""
import dataclasses, importlib, inspect, os, sys, tempfile, textwrap, warnings

warnings.simplefilter("ignore")


def build(model_source, name, extra_classes=(), extra_mappings=()):
    """Write the model to a temporary module, let ORMatic generate the DAO module for it, import both."""
    from sqlalchemy.orm import configure_mappers
    from krrood.class_diagrams.class_diagram import ClassDiagram
    from krrood.ormatic.dao import AlternativeMapping
    from krrood.ormatic.ormatic import ORMatic

    directory = tempfile.mkdtemp(prefix="c04_hunt_")
    with open(os.path.join(directory, f"{name}.py"), "w") as f:
        f.write(textwrap.dedent(model_source))
    sys.path.insert(0, directory)
    model = importlib.import_module(name)
    own = [c for _, c in inspect.getmembers(model, inspect.isclass) if c.__module__ == name]
    classes = [c for c in own if dataclasses.is_dataclass(c) and not issubclass(c, AlternativeMapping)]
    mappings = [c for c in own if issubclass(c, AlternativeMapping)]
    ormatic = ORMatic(
        class_dependency_graph=ClassDiagram(classes + list(extra_classes)),
        alternative_mappings=mappings + list(extra_mappings),
    )
    ormatic.make_all_tables()
    with open(os.path.join(directory, f"{name}_dao.py"), "w") as f:
        ormatic.to_sqlalchemy_file(f)
    daos = importlib.import_module(f"{name}_dao")
    configure_mappers()
    return model, daos

from krrood.ormatic.dao import to_dao

m, d = build('''
    from __future__ import annotations
    from dataclasses import dataclass
    from typing_extensions import Optional


    @dataclass
    class Node:
        n: int = 0
        nxt: Optional[Node] = None
''', "c04_defect10_model")

failed = False
for depth in (100, 200, 250, 400):
    node = None
    for i in range(depth):
        node = m.Node(i, node)
    try:
        restored = to_dao(node).from_dao()
        k = 0
        while restored is not None:
            k += 1
            restored = restored.nxt
        print(f"chain of {depth}: ok, {k} nodes came back")
        failed |= k != depth
    except RecursionError:
        print(f"chain of {depth}: VIOLATION RecursionError (sys.getrecursionlimit() = {sys.getrecursionlimit()})")
        failed = True
sys.exit(1 if failed else 0)
