"""
C04 defect 5 - a frozen dataclass with any non-None reference to a mapped object cannot be converted back.

FromDAOState.parse_single / parse_collection classify EVERY converted relationship value as "circular"
(`parsed is self.memo.get(id(value))` is always true after value.from_dao(state)), so apply_circular_fixes re-assigns
every relationship with setattr after __init__ - which raises FrozenInstanceError on frozen dataclasses.
"""
import dataclasses, importlib, inspect, os, sys, tempfile, textwrap, warnings

warnings.simplefilter("ignore")


def build(model_source, name, extra_classes=(), extra_mappings=()):
    """Write the model to a temporary module, let ORMatic generate the DAO module for it, import both."""
    from sqlalchemy.orm import configure_mappers
    from krrood.class_diagrams.class_diagram import ClassDiagram
    from krrood.ormatic.dao import AlternativeMapping
    from krrood.ormatic.ormatic import ORMatic

    directory = tempfile.mkdtemp(prefix="c04_hunt_")
    with open(os.path.join(directory, f"{name}.py"), "w") as f:
        f.write(textwrap.dedent(model_source))
    sys.path.insert(0, directory)
    model = importlib.import_module(name)
    own = [c for _, c in inspect.getmembers(model, inspect.isclass) if c.__module__ == name]
    classes = [c for c in own if dataclasses.is_dataclass(c) and not issubclass(c, AlternativeMapping)]
    mappings = [c for c in own if issubclass(c, AlternativeMapping)]
    ormatic = ORMatic(
        class_dependency_graph=ClassDiagram(classes + list(extra_classes)),
        alternative_mappings=mappings + list(extra_mappings),
    )
    ormatic.make_all_tables()
    with open(os.path.join(directory, f"{name}_dao.py"), "w") as f:
        ormatic.to_sqlalchemy_file(f)
    daos = importlib.import_module(f"{name}_dao")
    configure_mappers()
    return model, daos

from krrood.ormatic.dao import to_dao

m, d = build('''
    from __future__ import annotations
    from dataclasses import dataclass, field
    from typing_extensions import List, Optional


    @dataclass
    class Leaf:
        v: int = 0


    @dataclass(frozen=True)
    class Frozen:
        leaf: Optional[Leaf] = None
        n: int = 0
''', "c04_defect5_model")

failed = False
for obj in (m.Frozen(None, 1), m.Frozen(m.Leaf(7), 2)):
    try:
        restored = to_dao(obj).from_dao()
        ok = restored == obj
        print(f"{obj} -> {restored}  {'ok' if ok else 'VIOLATION'}")
    except Exception as e:
        ok = False
        print(f"{obj} -> VIOLATION: from_dao raised {type(e).__name__}: {e}")
    failed |= not ok
sys.exit(1 if failed else 0)
