"""
C04 defect 9 - a data field called `<x>_id` next to a reference field `<x>` is lost.

WrappedTable.create_one_to_one_relationship names the foreign key column `<field>_id`; it replaces the user's column
of the same name in the generated DAO, and dao.is_data_column() then excludes it (it has a foreign key), so neither
to_dao nor from_dao transports the value.
"""
import dataclasses, importlib, inspect, os, sys, tempfile, textwrap, warnings

warnings.simplefilter("ignore")


def build(model_source, name, extra_classes=(), extra_mappings=()):
    """Write the model to a temporary module, let ORMatic generate the DAO module for it, import both."""
    from sqlalchemy.orm import configure_mappers
    from krrood.class_diagrams.class_diagram import ClassDiagram
    from krrood.ormatic.dao import AlternativeMapping
    from krrood.ormatic.ormatic import ORMatic

    directory = tempfile.mkdtemp(prefix="c04_hunt_")
    with open(os.path.join(directory, f"{name}.py"), "w") as f:
        f.write(textwrap.dedent(model_source))
    sys.path.insert(0, directory)
    model = importlib.import_module(name)
    own = [c for _, c in inspect.getmembers(model, inspect.isclass) if c.__module__ == name]
    classes = [c for c in own if dataclasses.is_dataclass(c) and not issubclass(c, AlternativeMapping)]
    mappings = [c for c in own if issubclass(c, AlternativeMapping)]
    ormatic = ORMatic(
        class_dependency_graph=ClassDiagram(classes + list(extra_classes)),
        alternative_mappings=mappings + list(extra_mappings),
    )
    ormatic.make_all_tables()
    with open(os.path.join(directory, f"{name}_dao.py"), "w") as f:
        ormatic.to_sqlalchemy_file(f)
    daos = importlib.import_module(f"{name}_dao")
    configure_mappers()
    return model, daos

from krrood.ormatic.dao import to_dao

m, d = build('''
    from __future__ import annotations
    from dataclasses import dataclass
    from typing_extensions import Optional


    @dataclass
    class Leaf:
        v: int = 0


    @dataclass
    class Ref:
        leaf: Optional[Leaf] = None
        leaf_id: int = 0
''', "c04_defect9_model")

r = m.Ref(m.Leaf(1), 42)
restored = to_dao(r).from_dao()
print("expected:", r)
print("got     :", restored)
if restored != r:
    print("VIOLATION: the value of Ref.leaf_id did not survive the round trip")
    sys.exit(1)
