"""
C04 defect 8 - FunctionMapping (krrood/ormatic/alternative_mappings.py) silently maps a method of a NESTED class to a
different function.

create_instance keeps only `__qualname__.split(".")[0]` as class_name, create_from_dao does
getattr(getattr(module, class_name), function_name): Outer.Inner.run comes back as Outer.run.
(A function defined inside another function - qualname "factory.<locals>.local" - fails with AttributeError.)
"""
import dataclasses, importlib, inspect, os, sys, tempfile, textwrap, warnings

warnings.simplefilter("ignore")


def build(model_source, name, extra_classes=(), extra_mappings=()):
    """Write the model to a temporary module, let ORMatic generate the DAO module for it, import both."""
    from sqlalchemy.orm import configure_mappers
    from krrood.class_diagrams.class_diagram import ClassDiagram
    from krrood.ormatic.dao import AlternativeMapping
    from krrood.ormatic.ormatic import ORMatic

    directory = tempfile.mkdtemp(prefix="c04_hunt_")
    with open(os.path.join(directory, f"{name}.py"), "w") as f:
        f.write(textwrap.dedent(model_source))
    sys.path.insert(0, directory)
    model = importlib.import_module(name)
    own = [c for _, c in inspect.getmembers(model, inspect.isclass) if c.__module__ == name]
    classes = [c for c in own if dataclasses.is_dataclass(c) and not issubclass(c, AlternativeMapping)]
    mappings = [c for c in own if issubclass(c, AlternativeMapping)]
    ormatic = ORMatic(
        class_dependency_graph=ClassDiagram(classes + list(extra_classes)),
        alternative_mappings=mappings + list(extra_mappings),
    )
    ormatic.make_all_tables()
    with open(os.path.join(directory, f"{name}_dao.py"), "w") as f:
        ormatic.to_sqlalchemy_file(f)
    daos = importlib.import_module(f"{name}_dao")
    configure_mappers()
    return model, daos

from types import FunctionType
from krrood.ormatic.alternative_mappings import FunctionMapping
from krrood.ormatic.dao import to_dao

m, d = build('''
    from __future__ import annotations
    from dataclasses import dataclass
    from types import FunctionType


    @dataclass
    class Wrapper:
        func: FunctionType


    class Outer:
        def run(self):
            return "outer"

        class Inner:
            def run(self):
                return "inner"
''', "c04_defect8_model", extra_classes=[FunctionType], extra_mappings=[FunctionMapping])

failed = False
for f in (m.Outer.run, m.Outer.Inner.run):
    w = m.Wrapper(f)
    restored = to_dao(w).from_dao()
    ok = restored.func is f
    print(f"{f.__qualname__:16} -> {restored.func.__qualname__:16} {'ok' if ok else 'VIOLATION: a different function came back'}")
    failed |= not ok
sys.exit(1 if failed else 0)
