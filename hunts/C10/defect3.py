"""
C10 / clause "evaluation is demand driven ... obtaining the first k results consumes only a prefix of each lazily
produced domain".

for_all(u, C) (and therefore not_(exists(u, C)), which is rewritten to it) enumerates ALL solutions of C for the first
value of u into a list (ForAll.get_all_candidate_solutions) before it yields anything. A variable that is bound for the
first time inside C is therefore consumed to the end before the first result is produced, although the first result
only depends on the first value of that variable. Binding the same variable by an earlier conjunct makes the very same
query stream. With an unbounded producer the first spelling never returns.
"""
import sys
from dataclasses import dataclass
from itertools import islice

from krrood.entity_query_language.entity import let, entity, for_all, not_, exists
from krrood.entity_query_language.quantify_entity import an


@dataclass(eq=False)
class Job:
    cost: int

    def __repr__(self):
        return f"Job({self.cost})"


@dataclass(eq=False)
class Budget:
    limit: int


def run(build):
    produced = []

    def jobs():
        for i in range(1000):
            produced.append(i)
            yield Job(i)

    def budgets():
        for i in (5, 6, 7):
            yield Budget(i)

    job = let(Job, jobs())
    budget = let(Budget, budgets())
    query = an(entity(job, *build(job, budget)))
    first = list(islice(query.evaluate(), 1))
    return first, len(produced)


failures = 0
for name, build in [
    ("for_all(budget, job.cost <= budget.limit)", lambda j, b: [for_all(b, j.cost <= b.limit)]),
    ("not_(exists(budget, job.cost > budget.limit))", lambda j, b: [not_(exists(b, j.cost > b.limit))]),
    ("job.cost >= 0, for_all(...)   [reference: streams]", lambda j, b: [j.cost >= 0, for_all(b, j.cost <= b.limit)]),
]:
    first, consumed = run(build)
    print(name)
    print("    expected: first result Job(0) after consuming 1 job (at most a handful)")
    print(f"    got     : first result {first} after consuming {consumed} of 1000 jobs")
    if consumed > 10:
        failures += 1

sys.exit(1 if failures else 0)
