"""
C10 / clause "constructing ... never calls a method on user data".

Comparing a variable with a user object (==, !=, <, in_, contains, ...) wraps the object in a Literal.
Literal.__init__ infers a type with `type(first_value) if first_value else None`, i.e. it takes the TRUTH VALUE of the
user's object while the condition is built: __bool__ or (for container-like objects) __len__ is called, and for an
object that defines __iter__ the whole object is iterated (make_list) at construction.
"""
import sys

from krrood.entity_query_language.entity import let, entity, in_
from krrood.entity_query_language.quantify_entity import an

LOG = []


class Shelf:
    """A user object whose length / iteration is expensive (think: a lazy database collection)."""

    def __init__(self, name):
        self.name = name

    def __len__(self):
        LOG.append((self.name, "__len__"))
        return 1

    def __iter__(self):
        LOG.append((self.name, "__iter__"))
        return iter([self.name])


s1, s2 = Shelf("s1"), Shelf("s2")
shelf = let(Shelf, (s for s in [s1, s2]))

condition = shelf == s1  # only builds a Comparator
print("expected after `shelf == s1`: no call on s1")
print(f"got                         : {LOG}")
first = list(LOG)

LOG.clear()


class Plain:
    def __init__(self, name):
        self.name = name

    def __bool__(self):
        LOG.append((self.name, "__bool__"))
        return True


p1, p2 = Plain("p1"), Plain("p2")
plain = let(Plain, (p for p in [p1, p2]))
condition = in_(plain, [p1, p2])
print("expected after `in_(plain, [p1, p2])`: no call on p1")
print(f"got                                  : {LOG}")
second = list(LOG)

sys.exit(1 if first or second else 0)
