"""
C10 / clause "constructing ... never calls a method on user data".

Every node renders its label (_name_) in __post_init__ (SymbolicExpression._create_node_). Two labels are rendered from
user values: Index._name_ formats the key (`variable[key]` -> str(key)), and Conclusion._name_ uses str(value) for a
value that is not a Variable - at that moment the raw user object, because the value is wrapped into a Literal only
after the node was created. So __repr__/__str__ of user objects run while a query / rule is built (for a dataclass that
means reading every field of the object).
"""
import sys
from dataclasses import dataclass, field

from krrood.entity_query_language.entity import let, entity
from krrood.entity_query_language.quantify_entity import an
from krrood.entity_query_language.conclusion import Add

LOG = []


class Key:
    def __init__(self, name):
        self.name = name

    def __hash__(self):
        return hash(self.name)

    def __eq__(self, other):
        return self.name == other.name

    def __repr__(self):
        LOG.append(("Key.__repr__", self.name))
        return f"Key({self.name})"


@dataclass(eq=False)
class Record:
    attributes: dict = field(default_factory=dict)


class Verdict:
    def __repr__(self):
        LOG.append(("Verdict.__repr__",))
        return "Verdict()"


record = let(Record, (Record({Key("a"): i}) for i in range(2)))
LOG.clear()
indexed = record.attributes[Key("a")]
print("expected after `record.attributes[Key('a')]`: no call on the key")
print(f"got                                         : {LOG}")
first = list(LOG)

LOG.clear()
verdict = let(Verdict, None)
query = an(entity(verdict, indexed == 1))
with query:
    Add(verdict, Verdict())
print("expected after `Add(verdict, Verdict())`: no call on the value")
print(f"got                                     : {LOG}")
second = list(LOG)
print("(evaluation still works:", list(query.evaluate()), ")")

sys.exit(1 if first or second else 0)
