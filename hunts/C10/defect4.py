"""
C10 / clause "constructing ... never calls a ... predicate" (mechanism: symbolic wrappers defer execution).

Predicate.__new__ and symbolic_function only defer when one of the arguments is a CanBehaveLikeAVariable. A symbolic
CONDITION (Comparator, not_(...), and_(...), exists(...)) is a SymbolicExpression but not a "variable", so a predicate /
symbolic function whose arguments are conditions is executed immediately, while the query is built, with the expression
nodes as arguments. The function body runs at construction time, and what ends up in the query is its (meaningless)
return value: the predicate is never consulted during evaluation.
"""
import sys
from dataclasses import dataclass

from krrood.entity_query_language.entity import let, entity
from krrood.entity_query_language.quantify_entity import an
from krrood.entity_query_language.predicate import symbolic_function, Predicate

LOG = []


@dataclass(eq=False)
class Item:
    value: int

    def __repr__(self):
        return f"Item({self.value})"


@symbolic_function
def implies(premise, consequence):
    LOG.append(("implies called with", type(premise).__name__, type(consequence).__name__))
    return (not premise) or consequence


@dataclass(eq=False)
class Implies(Predicate):
    premise: object
    consequence: object

    def __call__(self):
        LOG.append(("Implies called with", self.premise, self.consequence))
        return (not self.premise) or self.consequence


item = let(Item, (Item(i) for i in range(4)))

built = implies(item.value > 1, item.value > 2)
print("symbolic function over two conditions")
print("    expected: nothing called while building, a symbolic expression is returned")
print(f"    got     : {LOG}, returned {type(built).__name__}")
called_while_building = list(LOG)

LOG.clear()
query = an(entity(item, Implies(item.value > 1, item.value > 2)))
result = list(query.evaluate())
print("predicate over two conditions:  value > 1  ->  value > 2")
print("    expected: [Item(0), Item(1), Item(3)] and one predicate call per item")
print(f"    got     : {result}, predicate calls: {LOG}")

sys.exit(1 if called_while_building or result != [Item(0), Item(1), Item(3)] else 0)
