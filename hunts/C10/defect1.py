"""
C10 / clause "constructing ... never advances an iterator over user data".

A plain iterable that is given where the API accepts "a variable or an iterable" (flatten(...), the container of
in_/contains, an argument of a symbolic function / predicate, a match(...) keyword value) is wrapped in a Literal.
Literal.__init__ calls make_list(data) just to look at the type of the first element, i.e. it iterates the user's
iterable to the end WHILE THE QUERY IS BUILT. A one-shot generator is empty afterwards, so the query also computes
wrong results.
"""
import sys
from dataclasses import dataclass

from krrood.entity_query_language.entity import let, entity, flatten
from krrood.entity_query_language.quantify_entity import an
from krrood.entity_query_language.predicate import symbolic_function

LOG = []
failures = []


def numbers():
    for i in range(3):
        LOG.append(("numbers", i))
        yield i


# (a) flatten over a one-shot generator
flat = flatten(numbers())
query = an(entity(flat))
consumed_while_building = list(LOG)
result = list(query.evaluate())
print("(a) flatten(generator)")
print("    expected: nothing consumed while building, results [0, 1, 2]")
print(f"    got     : consumed while building {consumed_while_building}, results {result}")
if consumed_while_building or result != [0, 1, 2]:
    failures.append("a")


# (b) generator as an argument of a symbolic function next to a variable
@dataclass(eq=False)
class Item:
    value: int


@symbolic_function
def value_plus_total(item, others):
    return item.value + sum(others)


LOG.clear()
item = let(Item, (Item(i) for i in range(2)))
call = value_plus_total(item, numbers())
query = an(entity(call))
consumed_while_building = list(LOG)
result = list(query.evaluate())
print("(b) symbolic_function(variable, generator)")
print("    expected: nothing consumed while building, first result 0 + (0+1+2) = 3")
print(f"    got     : consumed while building {consumed_while_building}, results {result}")
if consumed_while_building or result[:1] != [3]:
    failures.append("b")

sys.exit(1 if failures else 0)
