"""
defect12: assigned / extended / slice-assigned lists do not keep their positions and multiplicities when an
element's recording infers further values for the same list (transitive property). _add_item records first
(the inferred values get appended to the list by update_value) and stores the element afterwards, so
  * x.f = [D, E]      ->  x.f[0] is not D       ([F, D, E], F inferred from D)
  * x.f = [D, F]      ->  F is stored twice     ([F, D, F]);  x.f = [F, D] gives [F, D]: the multiset depends
                                                  on the order in which the same elements are written
"""
from __future__ import annotations

import sys
from dataclasses import dataclass, field

from typing_extensions import List

from krrood.entity_query_language.predicate import Symbol
from krrood.entity_query_language.symbol_graph import SymbolGraph
from krrood.ontomatic.property_descriptor.mixins import TransitiveProperty
from krrood.ontomatic.property_descriptor.property_descriptor import PropertyDescriptor


@dataclass(eq=False)
class Company(Symbol):
    name: str
    sub_organization_of: List[Company] = field(default_factory=list)

    def __repr__(self):
        return self.name


@dataclass
class SubOrganizationOf(PropertyDescriptor, TransitiveProperty): ...


Company.sub_organization_of = SubOrganizationOf(Company, "sub_organization_of")
SymbolGraph().clear()
SymbolGraph()

failed = False
D, E, F = Company("D"), Company("E"), Company("F")
D.sub_organization_of = [F]

R1 = Company("R1")
R1.sub_organization_of = [D, E]
got = list(R1.sub_organization_of)
print("R1.f = [D, E]  expected [D, E] followed by the inferred F; got", got)
failed |= got[:2] != [D, E]

R2 = Company("R2")
R2.sub_organization_of = [D, F]
got = list(R2.sub_organization_of)
print("R2.f = [D, F]  expected [D, F] (F is already there, nothing to add); got", got)
failed |= sorted(map(repr, got)) != ["D", "F"]

R3 = Company("R3")
R3.sub_organization_of = [F, D]
print("R3.f = [F, D]  got", list(R3.sub_organization_of), "(same elements, other order: no repetition)")

R4 = Company("R4")
R4.sub_organization_of[:] = [D, F]
print("R4.f[:] = [D, F]  got", list(R4.sub_organization_of))
failed |= sorted(map(repr, R4.sub_organization_of)) != ["D", "F"]

sys.exit(1 if failed else 0)
