"""
defect6: an element that is itself iterable (a Symbol with __iter__, e.g. a team that iterates over its people)
is stored in the field, but the graph records relations to the things it ITERATES OVER instead of to the element.
"""
from __future__ import annotations

import sys
from dataclasses import dataclass, field

from typing_extensions import List

from krrood.entity_query_language.predicate import Symbol
from krrood.entity_query_language.symbol_graph import SymbolGraph
from krrood.ontomatic.property_descriptor.property_descriptor import PropertyDescriptor


@dataclass(eq=False)
class Person(Symbol):
    name: str

    def __repr__(self):
        return self.name


@dataclass(eq=False)
class Team(Symbol):
    name: str
    people: List[Person] = field(default_factory=list)
    sub_teams: List[Team] = field(default_factory=list)

    def __iter__(self):
        return iter(self.people)

    def __repr__(self):
        return self.name


@dataclass
class SubTeam(PropertyDescriptor): ...


Team.sub_teams = SubTeam(Team, "sub_teams")
SymbolGraph().clear()
SymbolGraph()

top = Team("top")
sub = Team("sub", people=[Person("x"), Person("y")])
top.sub_teams.append(sub)

edges = sorted(
    (repr(r.source.instance), r.wrapped_field.field.name, repr(r.target.instance))
    for r in SymbolGraph().relations()
)
print("top.sub_teams =", list(top.sub_teams))
print("expected edges:", [("top", "sub_teams", "sub")])
print("got edges     :", edges)
sys.exit(0 if edges == [("top", "sub_teams", "sub")] else 1)
