"""
defect1: list.extend() on a managed list with the list itself (or any iterable that reads the list lazily)
never terminates. Python semantics: l.extend(l) doubles the list.
(x.field += x.field works, because list.__iadd__ is not overridden and __set__ copies first.)
"""
from __future__ import annotations

import signal
import sys
from dataclasses import dataclass, field

from typing_extensions import List

from krrood.entity_query_language.predicate import Symbol
from krrood.entity_query_language.symbol_graph import SymbolGraph
from krrood.ontomatic.property_descriptor.property_descriptor import PropertyDescriptor


@dataclass(eq=False)
class Company(Symbol):
    name: str
    partners: List[Company] = field(default_factory=list)

    def __repr__(self):
        return self.name


@dataclass
class PartnerOf(PropertyDescriptor): ...


Company.partners = PartnerOf(Company, "partners")
SymbolGraph().clear()
SymbolGraph()

a, b, c = Company("a"), Company("b"), Company("c")
a.partners = [b, c]

model = [b, c]
model.extend(model)
print("expected (plain list):", model)


class Stuck(Exception): ...


def on_alarm(*_):
    raise Stuck()


signal.signal(signal.SIGALRM, on_alarm)
signal.alarm(3)
try:
    a.partners.extend(a.partners)
    signal.alarm(0)
except Stuck:
    n = len(a.partners)
    print(f"got: extend(self) still running after 3s, the list has grown to {n} elements")
    sys.exit(1)

got = list(a.partners)
print("got:", got)
sys.exit(0 if got == model else 1)
