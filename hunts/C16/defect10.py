"""
defect10: first assignment (dataclass __init__) of a LIST field whose elements are not hashable - which is what a
plain @dataclass Symbol (eq=True, no __hash__) is. _ensure_monitored_type() pre-populates the new MonitoredList
through make_set(value) and raises TypeError, although every later way of writing the same list works.
"""
from __future__ import annotations

import sys
from dataclasses import dataclass, field

from typing_extensions import List

from krrood.entity_query_language.predicate import Symbol
from krrood.entity_query_language.symbol_graph import SymbolGraph
from krrood.ontomatic.property_descriptor.mixins import TransitiveProperty
from krrood.ontomatic.property_descriptor.property_descriptor import PropertyDescriptor


@dataclass
class Item(Symbol):  # default dataclass: __eq__ generated, __hash__ = None
    name: str
    parts: List[Item] = field(default_factory=list)


@dataclass
class HasPart(PropertyDescriptor, TransitiveProperty): ...


Item.parts = HasPart(Item, "parts")
SymbolGraph().clear()
SymbolGraph()

wheel = Item("wheel")
car = Item("car")
car.parts = [wheel]
print("assignment after construction: car.parts ==", [i.name for i in car.parts])
bike = Item("bike")
bike.parts.append(wheel)
print("append: bike.parts ==", [i.name for i in bike.parts])

print("expected: Item('truck', parts=[wheel]).parts == ['wheel']")
try:
    truck = Item("truck", parts=[wheel])
    print("got     :", [i.name for i in truck.parts])
    sys.exit(0 if list(truck.parts) == [wheel] else 1)
except TypeError as e:
    print("got     : TypeError:", e)
    sys.exit(1)
