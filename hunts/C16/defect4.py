"""
defect4: extended-slice item assignment (step other than 1) on a managed list of a transitive property.
Recording the assigned values appends the inferred values to the very same list BEFORE the slice is applied,
and the slice (negative positions / open end) is resolved only afterwards:
  * x[-1:-3:-1] = [D, E]  silently overwrites the wrong positions (an old element survives, another is lost,
    the inferred value is overwritten);
  * x[::2] = [D, E]       raises ValueError although the sizes match, and leaves relations/inferred data behind.
(plain indices, step-1 slices and insert() were repaired for exactly this, extended slices were not.)
"""
from __future__ import annotations

import sys
from dataclasses import dataclass, field

from typing_extensions import List

from krrood.entity_query_language.predicate import Symbol
from krrood.entity_query_language.symbol_graph import SymbolGraph
from krrood.ontomatic.property_descriptor.mixins import TransitiveProperty
from krrood.ontomatic.property_descriptor.property_descriptor import PropertyDescriptor


@dataclass(eq=False)
class Company(Symbol):
    name: str
    sub_organization_of: List[Company] = field(default_factory=list)

    def __repr__(self):
        return self.name


@dataclass
class SubOrganizationOf(PropertyDescriptor, TransitiveProperty): ...


Company.sub_organization_of = SubOrganizationOf(Company, "sub_organization_of")
SymbolGraph().clear()
SymbolGraph()

failed = False

# --- silent corruption ---
A, B, C, D, E, F, R = [Company(n) for n in "ABCDEFR"]
D.sub_organization_of = [F]  # so that R -> D infers R -> F
R.sub_organization_of = [A, B, C]
model = [A, B, C]
model[-1:-3:-1] = [D, E]  # [A, E, D]
R.sub_organization_of[-1:-3:-1] = [D, E]
got = list(R.sub_organization_of)
print("x[-1:-3:-1] = [D, E] on [A, B, C]")
print("  expected:", model, "plus the inferred F")
print("  got     :", got)
if got[:3] != model or F not in got:
    failed = True

# --- spurious ValueError ---
A, B, C, D, E, F, G, R = [Company(n) for n in "ABCDEFGR"]
D.sub_organization_of = [F]
R.sub_organization_of = [A, B, C, G]
model = [A, B, C, G]
model[::2] = [D, E]  # [D, B, E, G]
print("x[::2] = [D, E] on [A, B, C, G]")
print("  expected:", model, "plus the inferred F")
try:
    R.sub_organization_of[::2] = [D, E]
    got = list(R.sub_organization_of)
    print("  got     :", got)
    if got[:4] != model:
        failed = True
except ValueError as e:
    print("  got     : ValueError:", e, "- field is now", list(R.sub_organization_of))
    failed = True

sys.exit(1 if failed else 0)
