"""
defect7: history dependence. The graph (and its relation index) never forgets a relation, so an element that
becomes part of a field for the SECOND time (after the field and the inverse field were re-assigned to empty
collections in between) is stored but triggers no inference: relation_exists() short-circuits add_to_graph().
A fresh pair of objects put through the same final operation gets the inference.
"""
from __future__ import annotations

import sys
from dataclasses import dataclass, field

from typing_extensions import List, Set

from krrood.entity_query_language.predicate import Symbol
from krrood.entity_query_language.symbol_graph import SymbolGraph
from krrood.ontomatic.property_descriptor.mixins import HasInverseProperty
from krrood.ontomatic.property_descriptor.property_descriptor import PropertyDescriptor


@dataclass(eq=False)
class Company(Symbol):
    name: str
    members: Set[Person] = field(default_factory=set)

    def __repr__(self):
        return self.name


@dataclass(eq=False)
class Person(Symbol):
    name: str
    member_of: List[Company] = field(default_factory=list)

    def __repr__(self):
        return self.name


@dataclass
class Member(PropertyDescriptor, HasInverseProperty):
    @classmethod
    def get_inverse(cls):
        return MemberOf


@dataclass
class MemberOf(PropertyDescriptor, HasInverseProperty):
    @classmethod
    def get_inverse(cls):
        return Member


Person.member_of = MemberOf(Person, "member_of")
Company.members = Member(Company, "members")
SymbolGraph().clear()
SymbolGraph()

x, p = Company("x"), Person("p")
x.members = {p}  # p joins x
assert list(p.member_of) == [x]
x.members = set()  # assignment of a new (empty) collection
p.member_of = []  # assignment of a new (empty) collection; now both fields are empty
x.members.add(p)  # p joins again

y, q = Company("y"), Person("q")
y.members.add(q)  # same last operation, fresh objects

print("fresh objects : y.members =", set(y.members), " q.member_of =", list(q.member_of))
print("with a history: x.members =", set(x.members), " p.member_of =", list(p.member_of), " (expected [x])")
sys.exit(0 if list(p.member_of) == [x] else 1)
