"""
defect13: augmented assignment on the managed container through any other name than `obj.field`
(a local alias, a function parameter): list.__iadd__ / set.__ior__ are not overridden, they fill the container in C,
no hook runs and - unlike `obj.field += ...` - no descriptor __set__ follows that would repair it.
The elements are part of the field, nothing is recorded, nothing is inferred.
"""
from __future__ import annotations

import sys
from dataclasses import dataclass, field

from typing_extensions import List, Set

from krrood.entity_query_language.predicate import Symbol
from krrood.entity_query_language.symbol_graph import SymbolGraph
from krrood.ontomatic.property_descriptor.mixins import HasInverseProperty
from krrood.ontomatic.property_descriptor.property_descriptor import PropertyDescriptor


@dataclass(eq=False)
class Company(Symbol):
    name: str
    members: Set[Person] = field(default_factory=set)

    def __repr__(self):
        return self.name


@dataclass(eq=False)
class Person(Symbol):
    name: str
    member_of: List[Company] = field(default_factory=list)

    def __repr__(self):
        return self.name


@dataclass
class Member(PropertyDescriptor, HasInverseProperty):
    @classmethod
    def get_inverse(cls):
        return MemberOf


@dataclass
class MemberOf(PropertyDescriptor, HasInverseProperty):
    @classmethod
    def get_inverse(cls):
        return Member


Person.member_of = MemberOf(Person, "member_of")
Company.members = Member(Company, "members")
SymbolGraph().clear()
SymbolGraph()


def enroll(companies, company):
    companies += [company]


def hire(members, person):
    members |= {person}


failed = False
p, c = Person("p"), Company("c")
enroll(p.member_of, c)
print("list +=  via a parameter: p.member_of =", list(p.member_of), " c.members =", set(c.members), "(expected {p})")
failed |= set(c.members) != {p}

q, d = Person("q"), Company("d")
hire(d.members, q)
print("set  |=  via a parameter: d.members =", set(d.members), " q.member_of =", list(q.member_of), "(expected [d])")
failed |= list(q.member_of) != [d]

print("edges:", [(repr(r.source.instance), r.wrapped_field.field.name, repr(r.target.instance)) for r in SymbolGraph().relations()])
sys.exit(1 if failed else 0)
