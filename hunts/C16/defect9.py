"""
defect9: FIRST assignment of a field (the dataclass __init__) with the managed container of another object
(dataclasses.replace(obj, ...), or Company("n", members=other.members)).
A later assignment  b.members = a.members  copies the elements into b's own container. The first one does not:
_ensure_monitored_type() returns the foreign MonitoredSet as it is, it is re-bound to the new owner and stored, so
both objects share ONE container whose owner flips on every attribute access. Whatever is added through one
object becomes part of the other object's field as well, without a relation and without inferences.
"""
from __future__ import annotations

import dataclasses
import sys
from dataclasses import dataclass, field

from typing_extensions import List, Set

from krrood.entity_query_language.predicate import Symbol
from krrood.entity_query_language.symbol_graph import SymbolGraph
from krrood.ontomatic.property_descriptor.mixins import HasInverseProperty
from krrood.ontomatic.property_descriptor.property_descriptor import PropertyDescriptor


@dataclass(eq=False)
class Company(Symbol):
    name: str
    members: Set[Person] = field(default_factory=set)

    def __repr__(self):
        return self.name


@dataclass(eq=False)
class Person(Symbol):
    name: str
    member_of: List[Company] = field(default_factory=list)

    def __repr__(self):
        return self.name


@dataclass
class Member(PropertyDescriptor, HasInverseProperty):
    @classmethod
    def get_inverse(cls):
        return MemberOf


@dataclass
class MemberOf(PropertyDescriptor, HasInverseProperty):
    @classmethod
    def get_inverse(cls):
        return Member


Person.member_of = MemberOf(Person, "member_of")
Company.members = Member(Company, "members")
SymbolGraph().clear()
SymbolGraph()

a, b = Person("a"), Person("b")
c1 = Company("c1")
c1.members.add(a)
c2 = dataclasses.replace(c1, name="c2")  # == Company("c2", members=c1.members)
c3 = Company("c3")
c3.members = c1.members
c2.members.add(b)

print("later assignment copies         :", c3.members is not c1.members)
print("first assignment (init) copies  :", c2.members is not c1.members)

edges = {
    (repr(r.source.instance), r.wrapped_field.field.name, repr(r.target.instance))
    for r in SymbolGraph().relations()
}
print("c1.members =", set(c1.members), " c2.members =", set(c2.members))
print("b.member_of =", list(b.member_of))
in_field = b in c1.members
recorded = ("c1", "members", "b") in edges
print(f"b is part of c1.members: {in_field}; relation (c1, members, b) recorded: {recorded}; c1 in b.member_of: {c1 in b.member_of}")
print("expected: either b is not part of c1.members (own container per object), or it is recorded and inferred")
sys.exit(1 if in_field and not recorded else 0)
