"""
defect8 (error path): an item assignment that Python rejects (IndexError, or ValueError for an extended slice of
the wrong size) is recorded and inferred BEFORE the list rejects it. The element never becomes part of the field,
but the graph says it did and the inverse field of the element was written.
"""
from __future__ import annotations

import sys
from dataclasses import dataclass, field

from typing_extensions import List, Set

from krrood.entity_query_language.predicate import Symbol
from krrood.entity_query_language.symbol_graph import SymbolGraph
from krrood.ontomatic.property_descriptor.mixins import HasInverseProperty
from krrood.ontomatic.property_descriptor.property_descriptor import PropertyDescriptor


@dataclass(eq=False)
class Company(Symbol):
    name: str
    members: Set[Person] = field(default_factory=set)

    def __repr__(self):
        return self.name


@dataclass(eq=False)
class Person(Symbol):
    name: str
    member_of: List[Company] = field(default_factory=list)

    def __repr__(self):
        return self.name


@dataclass
class Member(PropertyDescriptor, HasInverseProperty):
    @classmethod
    def get_inverse(cls):
        return MemberOf


@dataclass
class MemberOf(PropertyDescriptor, HasInverseProperty):
    @classmethod
    def get_inverse(cls):
        return Member


Person.member_of = MemberOf(Person, "member_of")
Company.members = Member(Company, "members")
SymbolGraph().clear()
SymbolGraph()

q, c = Person("q"), Company("c")
try:
    q.member_of[3] = c
    print("no IndexError?!")
    sys.exit(2)
except IndexError as e:
    print("q.member_of[3] = c  ->  IndexError:", e)

edges = sorted(
    (repr(r.source.instance), r.wrapped_field.field.name, repr(r.target.instance), r.inferred)
    for r in SymbolGraph().relations()
)
print("expected: q.member_of == [], c.members == set(), no edges")
print("got     : q.member_of ==", list(q.member_of), ", c.members ==", set(c.members), ", edges ==", edges)
sys.exit(0 if not edges and not c.members else 1)
