"""
defect2: update()/extend() iterate the argument lazily while recording each element. When the argument is the
managed container of another object and the inferences triggered by the recording write into that container
(symmetric + transitive relation, e.g. connected_to / same_as), then
  * set:  a.connected.update(c.connected) raises RuntimeError: Set changed size during iteration
  * list: a.linked.extend(c.linked) walks over the elements appended meanwhile and stores repeated elements.
The spelling a.connected |= c.connected (which goes through __set__, that copies first) works.
"""
from __future__ import annotations

import sys
from collections import Counter
from dataclasses import dataclass, field

from typing_extensions import List, Set

from krrood.entity_query_language.predicate import Symbol
from krrood.entity_query_language.symbol_graph import SymbolGraph
from krrood.ontomatic.property_descriptor.mixins import HasInverseProperty, TransitiveProperty
from krrood.ontomatic.property_descriptor.property_descriptor import PropertyDescriptor


@dataclass(eq=False)
class Node(Symbol):
    name: str
    connected: Set[Node] = field(default_factory=set)
    linked: List[Node] = field(default_factory=list)

    def __repr__(self):
        return self.name


@dataclass
class Connected(PropertyDescriptor, TransitiveProperty, HasInverseProperty):
    @classmethod
    def get_inverse(cls):
        return Connected


@dataclass
class Linked(PropertyDescriptor, TransitiveProperty, HasInverseProperty):
    @classmethod
    def get_inverse(cls):
        return Linked


Node.connected = Connected(Node, "connected")
Node.linked = Linked(Node, "linked")
SymbolGraph().clear()
SymbolGraph()

failed = False

# --- set valued ---
a, b, c, d = [Node(n) for n in "abcd"]
a.connected.add(b)  # cluster {a, b}
c.connected.add(d)  # cluster {c, d}
print("set: expected a.connected.update(c.connected) to return and give {a, b, c, d}")
try:
    a.connected.update(c.connected)
    print("set: got", set(a.connected))
    failed |= set(a.connected) != {a, b, c, d}
except RuntimeError as e:
    print("set: got RuntimeError:", e)
    failed = True

# the |= spelling of the same thing works
a, b, c, d = [Node(n) for n in "abcd"]
a.connected.add(b)
c.connected.add(d)
a.connected |= c.connected
print("set: the |= spelling gives", set(a.connected))

# --- list valued ---
a, b, c, d = [Node(n) for n in "abcd"]
a.linked.append(b)  # a.linked == [a, b] (reflexive closure of symmetric+transitive)
c.linked.append(d)  # c.linked == [c, d]
before = list(a.linked)
argument = list(c.linked)
a.linked.extend(c.linked)
got = list(a.linked)
print("list: expected", before + argument, "(every node once; the closure adds nothing new)")
print("list: got     ", got)
if any(n > 1 for n in Counter(map(id, got)).values()):
    print("list: elements are repeated")
    failed = True

sys.exit(1 if failed else 0)
