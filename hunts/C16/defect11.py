"""
defect11: MonitoredSet.update(values) takes exactly one iterable. set.update(*others) takes any number,
including none: s.update(a, b) and s.update() are legal on a set and raise TypeError on a managed set field.
"""
from __future__ import annotations

import sys
from dataclasses import dataclass, field

from typing_extensions import Set

from krrood.entity_query_language.predicate import Symbol
from krrood.entity_query_language.symbol_graph import SymbolGraph
from krrood.ontomatic.property_descriptor.property_descriptor import PropertyDescriptor


@dataclass(eq=False)
class Person(Symbol):
    name: str

    def __repr__(self):
        return self.name


@dataclass(eq=False)
class Company(Symbol):
    name: str
    members: Set[Person] = field(default_factory=set)


@dataclass
class Member(PropertyDescriptor): ...


Company.members = Member(Company, "members")
SymbolGraph().clear()
SymbolGraph()

a, b = Person("a"), Person("b")
failed = False

model = set()
model.update({a}, [b])
model.update()
print("expected (plain set):", model)

c = Company("c")
try:
    c.members.update({a}, [b])
    print("update({a}, [b]) ->", set(c.members))
    failed |= set(c.members) != {a, b}
except TypeError as e:
    print("update({a}, [b]) -> TypeError:", e)
    failed = True
try:
    c.members.update()
    print("update() -> ok")
except TypeError as e:
    print("update() -> TypeError:", e)
    failed = True
sys.exit(1 if failed else 0)
