"""
defect3: the field is declared (with its descriptor) on a base class, the owner is an instance of a subclass.
Appending / assigning ONE element to the list field stores it TWICE.
"""
from __future__ import annotations

import sys
from dataclasses import dataclass, field

from typing_extensions import List

from krrood.entity_query_language.predicate import Symbol
from krrood.entity_query_language.symbol_graph import SymbolGraph
from krrood.ontomatic.property_descriptor.mixins import HasInverseProperty
from krrood.ontomatic.property_descriptor.property_descriptor import PropertyDescriptor


@dataclass(eq=False)
class Company(Symbol):
    name: str
    members: List[Person] = field(default_factory=list)

    def __repr__(self):
        return self.name


@dataclass(eq=False)
class Person(Symbol):
    name: str
    member_of: List[Company] = field(default_factory=list)

    def __repr__(self):
        return self.name


@dataclass(eq=False, repr=False)
class Student(Person):
    pass


@dataclass
class Member(PropertyDescriptor, HasInverseProperty):
    @classmethod
    def get_inverse(cls):
        return MemberOf


@dataclass
class MemberOf(PropertyDescriptor, HasInverseProperty):
    @classmethod
    def get_inverse(cls):
        return Member


Person.member_of = MemberOf(Person, "member_of")
Company.members = Member(Company, "members")
SymbolGraph().clear()
SymbolGraph()

failed = False

c = Company("c")
p = Person("p")
p.member_of.append(c)
print("Person : append(c)      ->", list(p.member_of), " expected [c]")
failed |= list(p.member_of) != [c]

s = Student("s")
s.member_of.append(c)
print("Student: append(c)      ->", list(s.member_of), " expected [c]")
failed |= list(s.member_of) != [c]

c2 = Company("c2")
s2 = Student("s2")
s2.member_of = [c2]
print("Student: member_of=[c2] ->", list(s2.member_of), " expected [c2]")
failed |= list(s2.member_of) != [c2]

edges = [
    (r.source.instance, r.wrapped_field.field.name, r.target.instance, r.inferred)
    for r in SymbolGraph().relations()
    if r.source.instance is s
]
print("edges leaving s:", edges, " expected one (s, member_of, c) edge")
failed |= len(edges) != 1

sys.exit(1 if failed else 0)
