"""
defect5: an owner or an element that is falsy (a Symbol with __len__ / __bool__, e.g. a company that counts its
members) is stored in the field but silently NOT recorded in the symbol graph, so nothing is inferred.
"""
from __future__ import annotations

import sys
from dataclasses import dataclass, field

from typing_extensions import List, Set

from krrood.entity_query_language.predicate import Symbol
from krrood.entity_query_language.symbol_graph import SymbolGraph
from krrood.ontomatic.property_descriptor.mixins import HasInverseProperty
from krrood.ontomatic.property_descriptor.property_descriptor import PropertyDescriptor


@dataclass(eq=False)
class Company(Symbol):
    name: str
    members: Set[Person] = field(default_factory=set)

    def __len__(self):  # "how many members does the company have"
        return len(self.members)

    def __repr__(self):
        return self.name


@dataclass(eq=False)
class Person(Symbol):
    name: str
    member_of: List[Company] = field(default_factory=list)

    def __repr__(self):
        return self.name


@dataclass
class Member(PropertyDescriptor, HasInverseProperty):
    @classmethod
    def get_inverse(cls):
        return MemberOf


@dataclass
class MemberOf(PropertyDescriptor, HasInverseProperty):
    @classmethod
    def get_inverse(cls):
        return Member


Person.member_of = MemberOf(Person, "member_of")
Company.members = Member(Company, "members")
SymbolGraph().clear()
SymbolGraph()


def edges():
    return sorted(
        (repr(r.source.instance), r.wrapped_field.field.name, repr(r.target.instance))
        for r in SymbolGraph().relations()
    )


failed = False

# falsy owner: the first member of an (empty, hence falsy) company
x, p1, p2 = Company("x"), Person("p1"), Person("p2")
x.members.add(p1)
x.members.add(p2)
print("owner falsy  : x.members =", set(x.members))
print("   expected p1.member_of == [x], p2.member_of == [x]")
print("   got      p1.member_of ==", list(p1.member_of), ", p2.member_of ==", list(p2.member_of))
print("   edges:", edges())
failed |= list(p1.member_of) != [x]

# falsy element: a person joins an empty company
y, q = Company("y"), Person("q")
q.member_of.append(y)
print("element falsy: q.member_of =", list(q.member_of))
print("   expected y.members == {q} and an edge (q, member_of, y)")
print("   got      y.members ==", set(y.members), "; edge present:", ("q", "member_of", "y") in edges())
failed |= set(y.members) != {q}

sys.exit(1 if failed else 0)
