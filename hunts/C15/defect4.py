"""
defect4 - roles x inheritance: the super-property is looked up on the *declared* role taker class
(the type parameter of Role[...]), not on the class of the actual role taker. When the role taker
is an instance of a subclass that carries the super-property field, nothing is inferred on it.

  Worker(Person) has member_of; CEO(Role[Person]).head_of is a sub-property of member_of
  ceo = CEO(Worker("w")); ceo.head_of = o    -> expected w.member_of == [o], got []
(with an inverse declared on the property the same situation raises ValueError, see notes.md)
"""
from __future__ import annotations
import sys
from dataclasses import dataclass, field
from typing_extensions import List
from krrood.class_diagrams.utils import Role
from krrood.entity_query_language.predicate import Symbol
from krrood.entity_query_language.symbol_graph import SymbolGraph
from krrood.ontomatic.property_descriptor.property_descriptor import PropertyDescriptor


@dataclass(eq=False)
class Org(Symbol):
    name: str


@dataclass(eq=False)
class Person(Symbol):
    name: str


@dataclass(eq=False)
class Worker(Person):
    member_of: List[Org] = field(default_factory=list)


@dataclass(eq=False)
class CEO(Role[Person], Symbol):
    person: Person
    head_of: Org = None
    __hash__ = object.__hash__


@dataclass
class MemberOf(PropertyDescriptor): ...


@dataclass
class HeadOf(MemberOf): ...


Worker.member_of = MemberOf(Worker, "member_of")
CEO.head_of = HeadOf(CEO, "head_of")
SymbolGraph().clear()
SymbolGraph()

o, w = Org("o"), Worker("w")
ceo = CEO(w)
ceo.head_of = o
got = [x.name for x in w.member_of]
in_graph = [
    (r.wrapped_field.name, r.target.instance.name)
    for r in SymbolGraph().relations()
    if r.source.instance is w
]
print("expected w.member_of == ['o'] (w is the role taker and has the super-property field)")
print("got     w.member_of ==", got, "; relations of w in the graph:", in_graph)
sys.exit(0 if got == ["o"] else 1)
