"""
defect6 - falsy values: an instance whose class defines __len__ / __bool__ and is currently falsy
(an organisation without members yet) is silently ignored as the target - or as the source - of an
assertion: no relation is recorded, nothing is inferred.

  Org.__len__ == len(members);  p.works_for = o (o still empty)  -> expected o.members == {p}, got {}
  the same assertion against an organisation that already has a member works.
"""
from __future__ import annotations
import sys
from dataclasses import dataclass, field
from typing_extensions import Set
from krrood.entity_query_language.predicate import Symbol
from krrood.entity_query_language.symbol_graph import SymbolGraph
from krrood.ontomatic.property_descriptor.mixins import HasInverseProperty
from krrood.ontomatic.property_descriptor.property_descriptor import PropertyDescriptor


@dataclass(eq=False)
class Org(Symbol):
    name: str
    members: Set[Person] = field(default_factory=set)

    def __len__(self):
        return len(self.members)


@dataclass(eq=False)
class Person(Symbol):
    name: str
    works_for: Org = None


@dataclass
class Member(PropertyDescriptor, HasInverseProperty):
    @classmethod
    def get_inverse(cls):
        return WorksFor


@dataclass
class WorksFor(PropertyDescriptor, HasInverseProperty):
    @classmethod
    def get_inverse(cls):
        return Member


Org.members = Member(Org, "members")
Person.works_for = WorksFor(Person, "works_for")
SymbolGraph().clear()
SymbolGraph()

o, p, q = Org("o"), Person("p"), Person("q")
p.works_for = o  # o is empty, hence falsy
first = sorted(x.name for x in o.members)
relations_after_first = len(list(SymbolGraph().relations()))
o.members.add(q)  # the source o is falsy as well at this moment
q_works_for = q.works_for
print("p.works_for = o      -> expected o.members == ['p'], got", first,
      "; relations in the graph:", relations_after_first)
print("o.members.add(q)     -> expected q.works_for is o, got", q_works_for and q_works_for.name)
sys.exit(0 if first == ["p"] and q_works_for is o else 1)
