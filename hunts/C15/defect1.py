"""
defect1 - a transitive descriptor that manages differently named fields on two classes:
the transitive edge inferred "outgoing from the source" is filed under the field of the
*target's* class, so the result depends on the order of the two assertions.

  d.part_of.append(c1); c1.sub_organization_of.append(c2)   -> d.part_of == [c1, c2]   (fine)
  c1.sub_organization_of.append(c2); d.part_of.append(c1)   -> AttributeError, d.part_of == []
"""
from __future__ import annotations
import sys
from dataclasses import dataclass, field
from typing_extensions import List
from krrood.entity_query_language.predicate import Symbol
from krrood.entity_query_language.symbol_graph import SymbolGraph
from krrood.ontomatic.property_descriptor.mixins import TransitiveProperty
from krrood.ontomatic.property_descriptor.property_descriptor import PropertyDescriptor


@dataclass(eq=False)
class Company(Symbol):
    name: str
    sub_organization_of: List[Company] = field(default_factory=list)


@dataclass(eq=False)
class Department(Symbol):
    name: str
    part_of: List[Company] = field(default_factory=list)


@dataclass
class SubOrganizationOf(PropertyDescriptor, TransitiveProperty): ...


Company.sub_organization_of = SubOrganizationOf(Company, "sub_organization_of")
Department.part_of = SubOrganizationOf(Department, "part_of")


def run(order):
    SymbolGraph().clear()
    SymbolGraph()
    d, c1, c2 = Department("d"), Company("c1"), Company("c2")
    steps = {
        "d->c1": lambda: d.part_of.append(c1),
        "c1->c2": lambda: c1.sub_organization_of.append(c2),
    }
    error = None
    for step in order:
        try:
            steps[step]()
        except Exception as e:  # noqa
            error = f"{type(e).__name__}: {e}"
    return sorted(c.name for c in d.part_of), error


expected = ["c1", "c2"]
failed = False
for order in (["d->c1", "c1->c2"], ["c1->c2", "d->c1"]):
    got, error = run(order)
    print(f"order {order}: expected d.part_of == {expected}, got {got}, error: {error}")
    failed |= got != expected or error is not None
sys.exit(1 if failed else 0)
