"""
defect3 - asserting a sub-property through the constructor fails when the field of the
super-property is declared later in the dataclass: the inferred super relation is written into a
backing field that the generated __init__ has not created yet.

  Person("p", works_for=c)   -> AttributeError: 'Person' object has no attribute '_member_of'
  p = Person("p"); p.works_for = c   -> fine
(The classes are the ones of test/dataset/university_ontology_like_classes.py, reduced.)
"""
from __future__ import annotations
import sys
from dataclasses import dataclass, field
from typing_extensions import List
from krrood.entity_query_language.predicate import Symbol
from krrood.entity_query_language.symbol_graph import SymbolGraph
from krrood.ontomatic.property_descriptor.property_descriptor import PropertyDescriptor


@dataclass(eq=False)
class Company(Symbol):
    name: str


@dataclass(eq=False)
class Person(Symbol):
    name: str
    works_for: Company = None
    member_of: List[Company] = field(default_factory=list)


@dataclass
class MemberOf(PropertyDescriptor): ...


@dataclass
class WorksFor(MemberOf): ...


Person.works_for = WorksFor(Person, "works_for")
Person.member_of = MemberOf(Person, "member_of")
SymbolGraph().clear()
SymbolGraph()

c = Company("c")
q = Person("q")
q.works_for = c
print("assignment after construction: q.member_of ==", [x.name for x in q.member_of])

try:
    p = Person("p", works_for=c)
except Exception as e:
    print(f"expected Person('p', works_for=c).member_of == ['c'], got {type(e).__name__}: {e}")
    sys.exit(1)
got = [x.name for x in p.member_of]
print("expected p.member_of == ['c'], got", got)
sys.exit(0 if got == ["c"] else 1)
