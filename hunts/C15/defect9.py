"""
defect9 - a member of the population that has been garbage collected stays in the graph as the
source of its edges; the transitive rule still extends those edges and tries to write the inferred
value into the dead instance. The assertion on the *live* objects fails, and its own value is not
stored in the field although the relation has been recorded.

  a.sub_organization_of.append(b); del a; b.sub_organization_of.append(c)
  expected: b.sub_organization_of == [c]
  got:      AttributeError ('NoneType' object has no attribute '_sub_organization_of'),
            b.sub_organization_of == [] while the graph has b->c
"""
from __future__ import annotations
import gc
import sys
from dataclasses import dataclass, field
from typing_extensions import List
from krrood.entity_query_language.predicate import Symbol
from krrood.entity_query_language.symbol_graph import SymbolGraph
from krrood.ontomatic.property_descriptor.mixins import TransitiveProperty
from krrood.ontomatic.property_descriptor.property_descriptor import PropertyDescriptor


@dataclass(eq=False)
class Company(Symbol):
    name: str
    sub_organization_of: List[Company] = field(default_factory=list)


@dataclass
class SubOrganizationOf(PropertyDescriptor, TransitiveProperty): ...


Company.sub_organization_of = SubOrganizationOf(Company, "sub_organization_of")
SymbolGraph().clear()
SymbolGraph()

a, b, c = Company("a"), Company("b"), Company("c")
a.sub_organization_of.append(b)
del a
gc.collect()
error = None
try:
    b.sub_organization_of.append(c)
except Exception as e:
    error = f"{type(e).__name__}: {e}"
in_field = [x.name for x in b.sub_organization_of]
in_graph = [
    r.target.instance.name for r in SymbolGraph().relations() if r.source.instance is b
]
print("expected b.sub_organization_of == ['c'] in the field and in the graph, no error")
print("got field", in_field, "graph", in_graph, "error:", error)
sys.exit(0 if in_field == in_graph == ["c"] and error is None else 1)
