"""
defect7 - a Symbol that is iterable (a Team that iterates over its members) used as the value of
a single-valued managed field is taken for a collection of values: the relation is recorded
towards every *element* of the team instead of towards the team.

  t.members == {p1};  p2.team = t
  expected: relation p2 -team-> t and t.members == {p1, p2}
  got:      relation p2 -team-> p1 (and ValueError because Person has no inverse field)
"""
from __future__ import annotations
import sys
from dataclasses import dataclass, field
from typing_extensions import Set
from krrood.entity_query_language.predicate import Symbol
from krrood.entity_query_language.symbol_graph import SymbolGraph
from krrood.ontomatic.property_descriptor.mixins import HasInverseProperty
from krrood.ontomatic.property_descriptor.property_descriptor import PropertyDescriptor


@dataclass(eq=False)
class Team(Symbol):
    name: str
    members: Set[Person] = field(default_factory=set)

    def __iter__(self):
        return iter(self.members)


@dataclass(eq=False)
class Person(Symbol):
    name: str
    team: Team = None


@dataclass
class TeamMember(PropertyDescriptor, HasInverseProperty):
    @classmethod
    def get_inverse(cls):
        return InTeam


@dataclass
class InTeam(PropertyDescriptor, HasInverseProperty):
    @classmethod
    def get_inverse(cls):
        return TeamMember


Person.team = InTeam(Person, "team")
Team.members = TeamMember(Team, "members")
SymbolGraph().clear()
SymbolGraph()

t, p1, p2 = Team("t"), Person("p1"), Person("p2")
t.members.add(p1)
error = None
try:
    p2.team = t
except Exception as e:
    error = f"{type(e).__name__}: {e}"
members = sorted(x.name for x in t.members)
relations_of_p2 = sorted(
    (r.wrapped_field.name, r.target.instance.name)
    for r in SymbolGraph().relations()
    if r.source.instance is p2
)
print("expected t.members == ['p1', 'p2'] and relations of p2 == [('team', 't')]")
print("got      t.members ==", members, "and relations of p2 ==", relations_of_p2, "; error:", error)
sys.exit(0 if members == ["p1", "p2"] and relations_of_p2 == [("team", "t")] else 1)
