"""
defect2 - assigning a container to a managed field throws away the values that were *inferred*
into that field before (they are still derivable from facts that were not touched, and they
stay in the graph). The same two assertions in the other order keep them.

  p1.works_for = c ; c.members = {p2}   -> c.members == {p2}        (p1 lost, graph still has c-members->p1)
  c.members = {p2} ; p1.works_for = c   -> c.members == {p1, p2}
"""
from __future__ import annotations
import sys
from dataclasses import dataclass, field
from typing_extensions import Set
from krrood.entity_query_language.predicate import Symbol
from krrood.entity_query_language.symbol_graph import SymbolGraph
from krrood.ontomatic.property_descriptor.mixins import HasInverseProperty
from krrood.ontomatic.property_descriptor.property_descriptor import PropertyDescriptor


@dataclass(eq=False)
class Company(Symbol):
    name: str
    members: Set[Person] = field(default_factory=set)


@dataclass(eq=False)
class Person(Symbol):
    name: str
    works_for: Company = None


@dataclass
class Member(PropertyDescriptor, HasInverseProperty):
    @classmethod
    def get_inverse(cls):
        return WorksFor


@dataclass
class WorksFor(PropertyDescriptor, HasInverseProperty):
    @classmethod
    def get_inverse(cls):
        return Member


Company.members = Member(Company, "members")
Person.works_for = WorksFor(Person, "works_for")


def run(order):
    SymbolGraph().clear()
    SymbolGraph()
    c, p1, p2 = Company("c"), Person("p1"), Person("p2")
    steps = {
        "p1.works_for=c": lambda: setattr(p1, "works_for", c),
        "c.members={p2}": lambda: setattr(c, "members", {p2}),
    }
    for step in order:
        steps[step]()
    in_field = sorted(p.name for p in c.members)
    in_graph = sorted(
        r.target.instance.name
        for r in SymbolGraph().relations()
        if r.source.instance is c and r.wrapped_field.name == "members"
    )
    return in_field, in_graph


failed = False
for order in (["c.members={p2}", "p1.works_for=c"], ["p1.works_for=c", "c.members={p2}"]):
    in_field, in_graph = run(order)
    print(f"order {order}: expected c.members == ['p1', 'p2']; field {in_field}, graph {in_graph}")
    failed |= in_field != ["p1", "p2"] or in_field != in_graph
sys.exit(1 if failed else 0)
