"""
defect11 (borderline - chained roles) - a role whose role taker is itself a role: the
super-property is only looked up one level down. If it lives on the role taker's role taker,
nothing is inferred (and with an inverse declared the assignment raises ValueError).

  Person.member_of ; Employee(Role[Person]) ; CEO(Role[Employee]).head_of (sub-property of member_of)
  ceo.head_of = o   -> expected p.member_of == [o], got []
"""
from __future__ import annotations
import sys
from dataclasses import dataclass, field
from typing_extensions import List
from krrood.class_diagrams.utils import Role
from krrood.entity_query_language.predicate import Symbol
from krrood.entity_query_language.symbol_graph import SymbolGraph
from krrood.ontomatic.property_descriptor.property_descriptor import PropertyDescriptor


@dataclass(eq=False)
class Org(Symbol):
    name: str


@dataclass(eq=False)
class Person(Symbol):
    name: str
    member_of: List[Org] = field(default_factory=list)


@dataclass(eq=False)
class Employee(Role[Person], Symbol):
    person: Person
    __hash__ = object.__hash__


@dataclass(eq=False)
class CEO(Role[Employee], Symbol):
    employee: Employee
    head_of: Org = None
    __hash__ = object.__hash__


@dataclass
class MemberOf(PropertyDescriptor): ...


@dataclass
class HeadOf(MemberOf): ...


Person.member_of = MemberOf(Person, "member_of")
CEO.head_of = HeadOf(CEO, "head_of")
SymbolGraph().clear()
SymbolGraph()

o, p = Org("o"), Person("p")
ceo = CEO(Employee(p))
ceo.head_of = o
got = [x.name for x in p.member_of]
print("expected p.member_of == ['o'] (p is the role taker at the end of the chain), got", got)
sys.exit(0 if got == ["o"] else 1)
