"""
defect12 (minor) - the graph de-duplicates relations per (WrappedField, source, target), and the
WrappedField of an asserted relation is the descriptor's one (class that declares the field)
while the WrappedField of an inferred super relation is taken from the class diagram entry of the
*instance's* class. For an instance of a subclass the two differ, so one and the same fact is
stored twice (once as asserted, once as inferred); for an instance of the declaring class once.

  s = Startup(Org); s.direct_sub_org_of.append(o); s.sub_org_of.append(o)
  expected exactly one relation s -sub_org_of-> o in SymbolGraph().relations(), got 2
"""
from __future__ import annotations
import sys
from dataclasses import dataclass, field
from typing_extensions import List
from krrood.entity_query_language.predicate import Symbol
from krrood.entity_query_language.symbol_graph import SymbolGraph
from krrood.ontomatic.property_descriptor.mixins import TransitiveProperty
from krrood.ontomatic.property_descriptor.property_descriptor import PropertyDescriptor


@dataclass(eq=False)
class Org(Symbol):
    name: str
    sub_org_of: List[Org] = field(default_factory=list)
    direct_sub_org_of: List[Org] = field(default_factory=list)


@dataclass(eq=False)
class Startup(Org): ...


@dataclass
class SubOrgOf(PropertyDescriptor, TransitiveProperty): ...


@dataclass
class DirectSubOrgOf(SubOrgOf): ...


Org.sub_org_of = SubOrgOf(Org, "sub_org_of")
Org.direct_sub_org_of = DirectSubOrgOf(Org, "direct_sub_org_of")


def count(cls):
    SymbolGraph().clear()
    SymbolGraph()
    s, o = cls("s"), Org("o")
    s.direct_sub_org_of.append(o)
    s.sub_org_of.append(o)
    return [
        (repr(r.wrapped_field), r.inferred)
        for r in SymbolGraph().relations()
        if r.source.instance is s and r.wrapped_field.name == "sub_org_of"
    ]


base, sub = count(Org), count(Startup)
print("instance of the declaring class: relations s-sub_org_of->o:", base)
print("instance of a subclass:          relations s-sub_org_of->o:", sub)
sys.exit(0 if len(base) == len(sub) == 1 else 1)
