"""
defect10 - alternative spellings of add / append on the managed containers that are not
intercepted: the in-place operators (`|=` on the set, `+=` on the list) applied to the container
itself (through a local name / a function parameter) change the field but record no relation and
infer nothing; set.update with several iterables is rejected.

  members = o.members; members |= {p}      -> o.members == {p}, no relation, p.member_of == []
  parents = a.sub_organization_of; parents += [b]   (b is below c) -> a's field [b], no closure
(`o.members |= {p}` written on the attribute works, because the descriptor's __set__ re-records.)
"""
from __future__ import annotations
import sys
from dataclasses import dataclass, field
from typing_extensions import List, Set
from krrood.entity_query_language.predicate import Symbol
from krrood.entity_query_language.symbol_graph import SymbolGraph
from krrood.ontomatic.property_descriptor.mixins import HasInverseProperty, TransitiveProperty
from krrood.ontomatic.property_descriptor.property_descriptor import PropertyDescriptor


@dataclass(eq=False)
class Company(Symbol):
    name: str
    members: Set[Person] = field(default_factory=set)
    sub_organization_of: List[Company] = field(default_factory=list)


@dataclass(eq=False)
class Person(Symbol):
    name: str
    member_of: List[Company] = field(default_factory=list)


@dataclass
class Member(PropertyDescriptor, HasInverseProperty):
    @classmethod
    def get_inverse(cls):
        return MemberOf


@dataclass
class MemberOf(PropertyDescriptor, HasInverseProperty):
    @classmethod
    def get_inverse(cls):
        return Member


@dataclass
class SubOrganizationOf(PropertyDescriptor, TransitiveProperty): ...


Company.members = Member(Company, "members")
Company.sub_organization_of = SubOrganizationOf(Company, "sub_organization_of")
Person.member_of = MemberOf(Person, "member_of")
SymbolGraph().clear()
SymbolGraph()


def join(container, people):
    container |= people


o, p = Company("o"), Person("p")
join(o.members, {p})
ok1 = [x.name for x in p.member_of] == ["o"]
print("members |= {p}: o.members ==", [x.name for x in o.members],
      "expected p.member_of == ['o'], got", [x.name for x in p.member_of])

a, b, c = Company("a"), Company("b"), Company("c")
b.sub_organization_of.append(c)
parents = a.sub_organization_of
parents += [b]
got = sorted(x.name for x in a.sub_organization_of)
ok2 = got == ["b", "c"]
print("parents += [b]: expected a.sub_organization_of == ['b', 'c'], got", got)

ok3 = True
try:
    o.members.update({p}, {Person("q")})
except TypeError as e:
    ok3 = False
    print("o.members.update(s1, s2): expected set.update semantics, got TypeError:", e)
sys.exit(0 if ok1 and ok2 and ok3 else 1)
