"""
defect5 - second use of a managed container: when the *first* assignment of a field (i.e. the
constructor) receives the managed container of another instance, the container object itself is
adopted instead of its values. Both instances then share one list, and a later assertion on one
of them shows up in the field of the other one without any relation in the graph.

  a = Company("a", sub_organization_of=[p]); b = Company("b", sub_organization_of=a.sub_organization_of)
  a.sub_organization_of.append(q)   -> b.sub_organization_of == [p, q] but the graph has no b->q
(dataclasses.replace(a, name="b") does the same thing.)
"""
from __future__ import annotations
import sys
from dataclasses import dataclass, field
from typing_extensions import List
from krrood.entity_query_language.predicate import Symbol
from krrood.entity_query_language.symbol_graph import SymbolGraph
from krrood.ontomatic.property_descriptor.mixins import TransitiveProperty
from krrood.ontomatic.property_descriptor.property_descriptor import PropertyDescriptor


@dataclass(eq=False)
class Company(Symbol):
    name: str
    sub_organization_of: List[Company] = field(default_factory=list)


@dataclass
class SubOrganizationOf(PropertyDescriptor, TransitiveProperty): ...


Company.sub_organization_of = SubOrganizationOf(Company, "sub_organization_of")
SymbolGraph().clear()
SymbolGraph()

p, q = Company("p"), Company("q")
a = Company("a", sub_organization_of=[p])
b = Company("b", sub_organization_of=a.sub_organization_of)
a.sub_organization_of.append(q)

field_of_b = sorted(x.name for x in b.sub_organization_of)
graph_of_b = sorted(
    r.target.instance.name for r in SymbolGraph().relations() if r.source.instance is b
)
print("same container object:", a.sub_organization_of is b.sub_organization_of)
print("expected b.sub_organization_of == ['p'] in the field and in the graph")
print("got field", field_of_b, "graph", graph_of_b)
sys.exit(0 if field_of_b == graph_of_b == ["p"] else 1)
