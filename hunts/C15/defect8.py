"""
defect8 - equal-but-distinct individuals: an inferred value is written into a container field
only if no *equal* element is there yet (`value in self`), although the graph (which is keyed by
identity) records a relation of its own for it. With a value-based __eq__ on the range class the
list field and the graph disagree.

  c1 = Company("X"); c2 = Company("X")   (c1 == c2, c1 is not c2)
  c1.members.add(p); c2.members.add(p)
  expected: p.member_of holds c1 and c2 (the graph has p-member_of->c1 and p-member_of->c2)
  got:      p.member_of == [c1]
"""
from __future__ import annotations
import sys
from dataclasses import dataclass, field
from typing_extensions import List, Set
from krrood.entity_query_language.predicate import Symbol
from krrood.entity_query_language.symbol_graph import SymbolGraph
from krrood.ontomatic.property_descriptor.mixins import HasInverseProperty
from krrood.ontomatic.property_descriptor.property_descriptor import PropertyDescriptor


@dataclass(eq=False)
class Company(Symbol):
    name: str
    members: Set[Person] = field(default_factory=set)

    def __eq__(self, other):
        return isinstance(other, Company) and self.name == other.name

    def __hash__(self):
        return hash(self.name)


@dataclass(eq=False)
class Person(Symbol):
    name: str
    member_of: List[Company] = field(default_factory=list)


@dataclass
class Member(PropertyDescriptor, HasInverseProperty):
    @classmethod
    def get_inverse(cls):
        return MemberOf


@dataclass
class MemberOf(PropertyDescriptor, HasInverseProperty):
    @classmethod
    def get_inverse(cls):
        return Member


Company.members = Member(Company, "members")
Person.member_of = MemberOf(Person, "member_of")
SymbolGraph().clear()
SymbolGraph()

c1, c2, p = Company("X"), Company("X"), Person("p")
c1.members.add(p)
c2.members.add(p)
in_field = [any(x is c for x in p.member_of) for c in (c1, c2)]
in_graph = [
    any(r.source.instance is p and r.target.instance is c for r in SymbolGraph().relations())
    for c in (c1, c2)
]
print("graph has p-member_of->c1, p-member_of->c2:", in_graph)
print("expected p.member_of to hold [c1, c2]; holds c1, c2:", in_field, "length", len(p.member_of))
sys.exit(0 if in_field == in_graph == [True, True] else 1)
