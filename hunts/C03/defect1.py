"""
C03 defect 1: a domain that contains the same value more than once is enumerated WITH the duplicates by the
first evaluation and WITHOUT them by every later one (and with some of them after a partially consumed one).

Run:  cd /tmp/hunt1/C03 && PYTHONPATH=/tmp/hunt1/C03/src:/tmp/hunt1/C03 /venv/bin/python HUNT/defect1.py
"""
import sys
from dataclasses import dataclass

from krrood.entity_query_language.entity import entity, let
from krrood.entity_query_language.quantify_entity import an


@dataclass(eq=False)
class Item:
    name: str

    def __repr__(self):
        return self.name


def fresh_query():
    a, b = Item("a"), Item("b")
    x = let(Item, [a, a, b])  # e.g. [connection.parent for connection in connections]
    return an(entity(x, x.name != "zzz"))


failed = False

# (1) the same query, evaluated twice, strictly sequentially
q = fresh_query()
first = [repr(r) for r in q.evaluate()]
second = [repr(r) for r in q.evaluate()]
print("first evaluation :", first)
print("second evaluation:", second)
print("expected         : both equal (what a fresh query gives:", [repr(r) for r in fresh_query().evaluate()], ")")
if first != second:
    failed = True

# (2) an abandoned evaluation changes what the next one returns
n = let(int, [1, 1, 2, 1])
q = an(entity(n, n > 0))
iterator = q.evaluate()
next(iterator), next(iterator)  # abandon after two results
after_abandoned = list(q.evaluate())
print("ints, after an evaluation that was abandoned after 2 results:", after_abandoned, "(fresh: [1, 1, 2, 1])")
if after_abandoned != [1, 1, 2, 1]:
    failed = True

# (3) ints, two complete evaluations
n = let(int, [1, 1, 2, 1])
q = an(entity(n, n > 0))
ints_first, ints_second = list(q.evaluate()), list(q.evaluate())
print("ints first/second:", ints_first, ints_second)
if ints_first != ints_second:
    failed = True

if failed:
    print("VIOLATION: evaluations of one query object are not repeatable when the domain has duplicates")
    sys.exit(1)
print("no violation")
