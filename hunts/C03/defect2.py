"""
C03 defect 2: an attribute / call / index expression (DomainMapping) reports a truth flag `_is_false_` that it
only refreshes where it is used as a condition. Where it is an operand (of a comparator, ...) it reports whatever an
earlier evaluation left behind, and the comparator drops every "false" operand value.

 (A) ONE query object, evaluated twice sequentially: second evaluation returns nothing.
 (B) two queries that share the attribute expression, evaluated one after the other (no live iterators):
     evaluating the first one makes the second one return nothing - for good.

Run:  cd /tmp/hunt1/C03 && PYTHONPATH=/tmp/hunt1/C03/src:/tmp/hunt1/C03 /venv/bin/python HUNT/defect2.py
"""
import sys
from dataclasses import dataclass

from krrood.entity_query_language.entity import entity, let, or_
from krrood.entity_query_language.quantify_entity import an


@dataclass(eq=False)
class Item:
    name: str
    value: int

    def __repr__(self):
        return self.name


def items():
    return [Item("a", 1), Item("b", 0), Item("c", 2), Item("d", 0)]


failed = False

# ---------------------------------------------------------------- (A) one query, twice
x = let(Item, items())
v = x.value
q = an(entity(x, v < 2, v))  # value below 2 and truthy
first = [repr(r) for r in q.evaluate()]
second = [repr(r) for r in q.evaluate()]
print("(A) an(entity(x, v < 2, v))    first:", first, " second:", second, " expected both ['a']")
failed |= first != second

x = let(Item, items())
v = x.value
q = an(entity(x, or_(v > 1, v)))
first = [repr(r) for r in q.evaluate()]
second = [repr(r) for r in q.evaluate()]
print("(A) an(entity(x, or_(v > 1, v))) first:", first, " second:", second, " expected both ['a', 'c']")
failed |= first != second


# ---------------------------------------------------------------- (B) two queries sharing `v`, sequential
def build():
    x = let(Item, items())
    v = x.value
    truthy = an(entity(x, v))  # items with a truthy value
    positive = an(entity(x, v > 0))  # items with a positive value
    zero = an(entity(x, v == 0))
    return truthy, positive, zero


truthy, positive, zero = build()
positive_alone = [repr(r) for r in positive.evaluate()]
truthy, positive, zero = build()
zero_alone = [repr(r) for r in zero.evaluate()]

truthy, positive, zero = build()
r_positive_1 = [repr(r) for r in positive.evaluate()]
r_truthy = [repr(r) for r in truthy.evaluate()]  # completely consumed, nothing is live
r_positive_2 = [repr(r) for r in positive.evaluate()]
r_zero = [repr(r) for r in zero.evaluate()]
print("(B) positive alone:", positive_alone, " zero alone:", zero_alone)
print("(B) positive, then truthy", r_truthy, "then positive again:", r_positive_2, " then zero:", r_zero)
failed |= r_positive_1 != positive_alone or r_positive_2 != positive_alone or r_zero != zero_alone

if failed:
    print("VIOLATION: a (re-)evaluation depends on the truth flag an earlier evaluation left on a shared attribute node")
    sys.exit(1)
print("no violation")
