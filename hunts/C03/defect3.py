"""
C03 defect 3: `SymbolicExpression._conditions_root_` is a cached_property whose value depends on the *evaluation
parent* the node happens to have the first time it is asked for. An attribute that is the whole condition of one
query and an operand in another one caches "I am the conditions root" during the first query, and is then treated as
a condition (falsy value => false => dropped by the comparator) inside the second query.

No stale truth flag is involved here: the last value the first query sees is truthy, the flag is False afterwards.

Run:  cd /tmp/hunt1/C03 && PYTHONPATH=/tmp/hunt1/C03/src:/tmp/hunt1/C03 /venv/bin/python HUNT/defect3.py
"""
import sys
from dataclasses import dataclass

from krrood.entity_query_language.entity import entity, let
from krrood.entity_query_language.quantify_entity import an


@dataclass(eq=False)
class Item:
    name: str
    flag: bool

    def __repr__(self):
        return self.name


def build():
    x = let(Item, [Item("b", False), Item("a", True)])
    f = x.flag
    unflagged = an(entity(x, f == False))  # noqa: E712  (f is an operand)
    flagged = an(entity(x, f))  # (f is the condition)
    return flagged, unflagged, f


flagged, unflagged, f = build()
alone = [repr(r) for r in unflagged.evaluate()]

flagged, unflagged, f = build()
r_flagged = [repr(r) for r in flagged.evaluate()]  # completely consumed
flag_left_behind = f._is_false_
r_unflagged = [repr(r) for r in unflagged.evaluate()]

print("unflagged alone                     :", alone, "(expected ['b'])")
print("flagged                             :", r_flagged, "(expected ['a'])")
print("truth flag left on the attribute    :", flag_left_behind, "(False: nothing stale)")
print("unflagged evaluated AFTER flagged   :", r_unflagged, "(expected ['b'])")
print("cached conditions root of attribute :", f._conditions_root_, "is the attribute itself:", f._conditions_root_ is f)

if r_unflagged != alone:
    print("VIOLATION: the result of a query depends on which query sharing the attribute was evaluated first")
    sys.exit(1)
print("no violation")
