"""
C03 defect 4 (borderline: needs a change of the domain collection between two evaluations):
a variable with an explicitly given domain (let(T, world.bodies)) keeps a one-shot iterator over the collection plus
the values pulled so far. What a later evaluation sees of a change of the collection depends on HOW FAR the earlier
evaluation was consumed; a completely consumed one freezes the domain for ever (added elements never appear, removed
ones never disappear), whereas a fresh query - and a variable whose domain comes from the symbol graph - sees the
collection as it is when evaluate() is called.

Run:  cd /tmp/hunt1/C03 && PYTHONPATH=/tmp/hunt1/C03/src:/tmp/hunt1/C03 /venv/bin/python HUNT/defect4.py
"""
import sys
from dataclasses import dataclass

from krrood.entity_query_language.entity import entity, let
from krrood.entity_query_language.quantify_entity import an


@dataclass(eq=False)
class Item:
    name: str

    def __repr__(self):
        return self.name


def scenario(consume):
    bodies = [Item("a"), Item("b"), Item("c")]
    x = let(Item, bodies)
    q = an(entity(x, x.name != "zzz"))
    iterator = q.evaluate()
    for _ in range(consume):
        next(iterator)
    del iterator
    bodies.append(Item("d"))
    bodies.remove(bodies[0])
    again = [repr(r) for r in q.evaluate()]
    y = let(Item, bodies)
    fresh = [repr(r) for r in an(entity(y, y.name != "zzz")).evaluate()]
    return again, fresh


failed = False
for consume in (0, 1, 3):
    again, fresh = scenario(consume)
    print(f"earlier evaluation consumed {consume} results -> re-evaluation: {again}   fresh query: {fresh}")
    failed |= again != fresh

if failed:
    print("VIOLATION: the re-evaluation differs from a fresh query, and differs with the abandonment point")
    sys.exit(1)
print("no violation")
