"""
ADJACENT finding (not strictly inside C12's statement, found while probing it): the truth flag that an attribute node
keeps from its use as a condition is reported again when the same node is an OPERAND of a comparator.

``flag = wrap(x).flag`` (attribute of the result of a symbolic function; the same happens with a plain ``x.flag``).
In ``and_(not_(flag), flag == False)`` the Not evaluates the attribute as a condition: DomainMapping stores
``_is_false_ = True`` on the node for an item whose flag is False. The comparator then finds the attribute already bound
(``self._id_ in sources``) and DomainMapping._evaluate__ yields ``OperationResult(sources, self._is_false_, self)`` with
the stale flag; Comparator._evaluate__ filters its operands with ``v.is_true`` and drops the binding.
The predicate spelling ``flag(x)`` of the same condition is correct (Variable._truth_value_is_false_ looks at the
parent), which is why this shows up as a predicate-vs-attribute disagreement.
"""
import sys
from dataclasses import dataclass

from krrood.entity_query_language.entity import entity, let, and_, not_
from krrood.entity_query_language.predicate import symbolic_function
from krrood.entity_query_language.quantify_entity import an


@dataclass(eq=False)
class Item:
    name: str
    flag: bool

    def __repr__(self):
        return self.name


@symbolic_function
def wrap(item):
    return item


@symbolic_function
def flag_of(item):
    return item.flag


items = [Item("a", False), Item("b", True)]
failures = []
for label, make in [
    ("flag_of(x)      [reference]", lambda x: flag_of(x)),
    ("wrap(x).flag", lambda x: wrap(x).flag),
    ("x.flag", lambda x: x.flag),
]:
    x = let(Item, items)
    node = make(x)
    got = list(an(entity(x, and_(not_(node), node == False))).evaluate())
    print(f"and_(not_(n), n == False) with n = {label}: expected [a], got {got}")
    if got != [items[0]]:
        failures.append(label)
print("FAILURES:", failures)
sys.exit(1 if failures else 0)
