"""
C12 / defect 5: a @symbolic_function METHOD written as ``receiver_variable.method(argument_variable)``.

``x.is_bigger_than(y)`` with x a variable does not reach the symbolic_function wrapper at construction: it builds
Attribute -> Call(_args_=(y,)). At evaluation Call._apply_mapping_ passes the *Variable object* y (not its value) to
the bound method; now the wrapper sees a variable, builds a fresh Variable and returns it. That object is truthy, so
the condition holds for EVERY binding and the function body is never invoked. The module-level spelling
``Item.is_bigger_than(x, y)`` of the very same call is evaluated correctly.
"""
import sys
from dataclasses import dataclass

from krrood.entity_query_language.entity import entity, let, set_of
from krrood.entity_query_language.predicate import symbolic_function
from krrood.entity_query_language.quantify_entity import an

failures = []
log = []


@dataclass(eq=False)
class Item:
    name: str
    size: int

    def __repr__(self):
        return self.name

    @symbolic_function
    def is_bigger_than(self, n, margin=0):
        log.append((self.name, n, margin))
        return self.size > n + margin


items = [Item("a", 0), Item("b", 1), Item("c", 2), Item("d", 3)]
limits = [1, 5]
expected = [(i.name, n) for i in items for n in limits if i.is_bigger_than(n)]  # [('c', 1), ('d', 1)]

for label, build in [
    ("Item.is_bigger_than(x, y)   [reference spelling]", lambda x, y: Item.is_bigger_than(x, y)),
    ("x.is_bigger_than(y)", lambda x, y: x.is_bigger_than(y)),
    ("x.is_bigger_than(n=y)", lambda x, y: x.is_bigger_than(n=y)),
    ("x.is_bigger_than(0, margin=y)", lambda x, y: x.is_bigger_than(0, margin=y)),
]:
    log.clear()
    x = let(Item, items)
    y = let(int, limits)
    got = [(r[x].name, r[y]) for r in an(set_of([x, y], build(x, y))).evaluate()]
    print(f"{label}: expected {expected}, got {got}; body invoked {len(log)} times")
    if sorted(got) != sorted(expected):
        failures.append(label)

print("FAILURES:", failures)
sys.exit(1 if failures else 0)
