"""
C12 / defect 1: a variadic (*args) signature.

merge_args_and_kwargs() zips the *names* of the parameters with the positional arguments. A ``*xs`` parameter is ONE
name, so only the first positional argument is kept (under the keyword "xs"), every further positional argument is
dropped without being looked at.

 (a) a variable written in the 2nd (3rd, ...) position is therefore not recognised: the body runs at construction time
     on the Variable object and a plain value (not a condition) is returned;
 (b) a variable written in the 1st position is recognised, but at evaluation the function is called as f(xs=<value>)
     -> TypeError, for the function as well as for a Predicate subclass with ``__init__(self, *items)``.
"""
import sys

from krrood.entity_query_language.entity import entity, let
from krrood.entity_query_language.predicate import Predicate, symbolic_function
from krrood.entity_query_language.quantify_entity import an
from krrood.entity_query_language.symbolic import SymbolicExpression

failures = []
log = []


@symbolic_function
def any_big(*xs):
    log.append(xs)
    return any(v > 2 for v in xs)


class AllDifferent(Predicate):
    def __init__(self, *items):
        self.items = items

    def __call__(self):
        return len(set(self.items)) == len(self.items)


D = [1, 2, 3, 4]

# concrete calls are fine
assert any_big(1, 3) is True and any_big(1, 2) is False
assert AllDifferent(1, 2)() is True and AllDifferent(1, 1)() is False

# (a) variable in the second position
log.clear()
x = let(int, D)
condition = any_big(1, x)
print("(a) any_big(1, x) returned", repr(condition), "- body executed at construction with:", log)
print("    expected: a symbolic condition and no call at construction")
if not isinstance(condition, SymbolicExpression) or log:
    failures.append("(a) positional variable after the first position is not recognised")

# (b) variable in the first position
for label, build, expected in [
    ("any_big(x)", lambda v: any_big(v), [3, 4]),
    ("any_big(x, 5)", lambda v: any_big(v, 5), [1, 2, 3, 4]),
    ("AllDifferent(x, 2)", lambda v: AllDifferent(v, 2), [1, 3, 4]),
]:
    x = let(int, D)
    try:
        got = list(an(entity(x, build(x))).evaluate())
    except Exception as e:
        got = f"{type(e).__name__}: {e}"
    print(f"(b) {label}: expected {expected}, got {got}")
    if got != expected:
        failures.append(f"(b) {label}")

print("FAILURES:", failures)
sys.exit(1 if failures else 0)
