"""
C12 / defect 2: positional-only parameters (``def f(a, /, b)`` and practically every builtin, e.g. ``len``).

The symbolic call is accepted and returns a condition, but every argument is stored under its parameter name and the
function is re-invoked with keywords only (symbolic.py, Variable._instantiate_using_child_vars_and_yield_results_:
``self._type_(**{...})``). A positional-only parameter cannot be passed by keyword -> TypeError for every binding.
"""
import sys

from krrood.entity_query_language.entity import entity, let
from krrood.entity_query_language.predicate import symbolic_function
from krrood.entity_query_language.quantify_entity import an

failures = []


@symbolic_function
def longer_than(text, /, n=0):
    return len(text) > n


symbolic_len = symbolic_function(len)

WORDS = ["", "a", "bb", "ccc"]
assert longer_than("bb", 1) is True and symbolic_len("bb") == 2  # concrete calls are fine

for label, build, expected in [
    ("longer_than(x, 1)", lambda v: longer_than(v, 1), ["bb", "ccc"]),
    ("longer_than(x, n=1)", lambda v: longer_than(v, n=1), ["bb", "ccc"]),
    ("symbolic_function(len)(x) > 1", lambda v: symbolic_len(v) > 1, ["bb", "ccc"]),
]:
    x = let(str, WORDS)
    try:
        got = list(an(entity(x, build(x))).evaluate())
    except Exception as e:
        got = f"{type(e).__name__}: {e}"
    print(f"{label}: expected {expected}, got {got}")
    if got != expected:
        failures.append(label)

print("FAILURES:", failures)
sys.exit(1 if failures else 0)
