"""
C12 / defect 3 (error path): call shapes that the concrete call rejects with a TypeError are silently accepted by the
symbolic call, and the query is answered with *some* of the written arguments.

 * too many positional arguments: zip() in merge_args_and_kwargs drops the surplus;
 * a parameter given positionally AND by keyword: dict.update lets the keyword win;
 * a positional argument written in the place of a keyword-only parameter is bound to it.
"""
import sys

from krrood.entity_query_language.entity import entity, let
from krrood.entity_query_language.predicate import symbolic_function
from krrood.entity_query_language.quantify_entity import an

failures = []
log = []


@symbolic_function
def big(a, thr=2):
    log.append((a, thr))
    return a > thr


@symbolic_function
def kw_only(a, *, b):
    log.append((a, b))
    return a + b > 4


def concrete_outcome(call):
    try:
        return call()
    except TypeError as e:
        return f"TypeError: {e}"


D = [1, 2, 3]
for label, concrete, build in [
    ("big(v, 1, 99)", lambda: big(3, 1, 99), lambda v: big(v, 1, 99)),
    ("big(v, 5, thr=0)", lambda: big(3, 5, thr=0), lambda v: big(v, 5, thr=0)),
    ("kw_only(1, v)", lambda: kw_only(1, 3), lambda v: kw_only(1, v)),
]:
    log.clear()
    x = let(int, D)
    try:
        got = list(an(entity(x, build(x))).evaluate())
    except TypeError as e:
        got = f"TypeError: {e}"
    print(f"{label}: concrete call -> {concrete_outcome(concrete)}")
    print(f"    symbolic call -> {got}; function was invoked with {log}")
    if not (isinstance(got, str) and got.startswith("TypeError")):
        failures.append(label)

print("expected: the symbolic call is rejected like the concrete one")
print("FAILURES:", failures)
sys.exit(1 if failures else 0)
