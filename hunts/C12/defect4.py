"""
C12 / defect 4: a CONCRETE argument that is iterable is looked into at construction time.

Every concrete argument of a symbolic call becomes ``Literal(value, name=<parameter>)``. Literal.__init__ (symbolic.py)
derives a type from the *first element* of the value: ``make_list(value)`` iterates the value completely and
``type(first_value) if first_value else None`` asks the first element for its truth value.

 (a) a one-shot iterable (iterator, generator, file, cursor ...) is exhausted before the function sees it: the function
     is invoked with an empty iterator and the truth value differs from the one of the concrete call;
 (b) a value whose first element has no truth value (row of a 2-D numpy array, any object whose __bool__ raises) makes
     the *construction* of the condition raise.
"""
import sys

from krrood.entity_query_language.entity import entity, let
from krrood.entity_query_language.predicate import Predicate, symbolic_function
from krrood.entity_query_language.quantify_entity import an
from dataclasses import dataclass

failures = []


@symbolic_function
def member(item, collection):
    return item in collection


@dataclass
class Member(Predicate):
    item: int
    collection: object

    def __call__(self):
        return self.item in self.collection


# (a) one binding, one call: no question of "who consumed the iterator first"
for label, concrete, build in [
    ("member(x, iter([1, 3]))", lambda: member(3, iter([1, 3])), lambda v: member(v, iter([1, 3]))),
    ("member(collection=(i for i in [1, 3]), item=x)", lambda: member(3, (i for i in [1, 3])),
     lambda v: member(collection=(i for i in [1, 3]), item=v)),
    ("Member(x, iter([1, 3]))", lambda: Member(3, iter([1, 3]))(), lambda v: Member(v, iter([1, 3]))),
]:
    x = let(int, [3])
    expected = [3] if concrete() else []
    got = list(an(entity(x, build(x))).evaluate())
    print(f"(a) {label}: concrete call for 3 -> {concrete()}, expected {expected}, got {got}")
    if got != expected:
        failures.append("(a) " + label)


# (b) first element without a truth value
class Row:
    def __init__(self, *cells):
        self.cells = cells

    def __bool__(self):
        raise ValueError("The truth value of a Row is ambiguous")


@symbolic_function
def has_rows(n, table):
    return len(table) == n


table = [Row(1, 2), Row(3, 4)]
assert has_rows(2, table) is True
cases = [("has_rows(x, [Row, Row])", lambda v: has_rows(v, table))]
try:
    import numpy

    matrix = numpy.array([[1, 2], [3, 4]])
    cases.append(("has_rows(x, 2x2 numpy array)", lambda v: has_rows(v, matrix)))
except ImportError:
    pass
for label, build in cases:
    x = let(int, [1, 2, 3])
    try:
        got = list(an(entity(x, build(x))).evaluate())
    except Exception as e:
        got = f"{type(e).__name__}: {e}"
    print(f"(b) {label}: expected [2], got {got}")
    if got != [2]:
        failures.append("(b) " + label)

print("FAILURES:", failures)
sys.exit(1 if failures else 0)
