"""
C14 defect 1: a dead, not yet swept source of a transitive relation makes the next assertion crash.

prefix history : create b, c, d; relate d -> b (sub_organization_of);
                 create a, relate a -> b, drop a                              (a is garbage, b, c, d live on)
assertion      : b.sub_organization_of = [c]
expected       : same result as on a fresh graph: b -> c recorded, b.sub_organization_of == [c],
                 and the transitive consequence d -> c (d.sub_organization_of == [b, c])
got            : AttributeError: 'NoneType' object has no attribute '_sub_organization_of';
                 b.sub_organization_of stays empty, and after retrying the assertion the consequence d -> c is lost
"""
import sys
import traceback

from test.dataset.university_ontology_like_classes import Company
from krrood.entity_query_language.symbol_graph import SymbolGraph


def names(values):
    return [v.name if v is not None else None for v in values]


def run(with_garbage_prefix: bool):
    SymbolGraph().clear()
    SymbolGraph()
    b, c, d = Company("b"), Company("c"), Company("d")
    d.sub_organization_of = [b]
    if with_garbage_prefix:
        a = Company("a")
        a.sub_organization_of = [b]
        del a  # a is dead now (plain reference counting, no cycle involved); its node waits for the lazy sweep
    error = None
    try:
        b.sub_organization_of = [c]
    except Exception as e:
        traceback.print_exc()
        error = repr(e)
        # the natural reaction of a caller: try again
        b.sub_organization_of = [c]
    graph = sorted(
        (r.source.instance.name, r.target.instance.name, r.inferred)
        for r in SymbolGraph().relations()
        if r.source.instance is not None and r.target.instance is not None
    )
    return dict(
        error=error,
        b=names(b.sub_organization_of),
        d=names(d.sub_organization_of),
        graph=graph,
    )


expected = run(False)
got = run(True)
print("expected (fresh graph)          :", expected)
print("got (after the garbage prefix)  :", got)
if got != expected:
    print("VIOLATION: the dropped instance changed the effect of the assertions")
    sys.exit(1)
print("ok")
