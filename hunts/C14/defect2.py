"""
C14 defect 2: a dead, not yet swept target of a transitive relation is handed to a new source as the value None.

prefix history : create c3, c2; relate c3 -> c2 (sub_organization_of); give c3 a new (empty) value; drop c2
                 (c2 is garbage - nothing references it any more; c3 lives on)
assertion      : c4.sub_organization_of = [c3]
expected       : what the same assertion gives on a graph without that past: c4.sub_organization_of == [c3],
                 one relation c4 -> c3
got            : c4.sub_organization_of == [None, c3] and an inferred relation c4 -> <dead node> in the graph:
                 the consequence of the new relation is attached to an instance that no longer exists
"""
import gc
import sys

from test.dataset.university_ontology_like_classes import Company
from krrood.entity_query_language.symbol_graph import SymbolGraph


def names(values):
    return [v.name if v is not None else None for v in values]


def run(with_garbage_prefix: bool):
    SymbolGraph().clear()
    SymbolGraph()
    c3, c4 = Company("c3"), Company("c4")
    if with_garbage_prefix:
        c2 = Company("c2")
        c3.sub_organization_of = [c2]
        c3.sub_organization_of = []
        del c2
        gc.collect()
    c4.sub_organization_of = [c3]
    graph = sorted(
        (
            r.source.instance.name,
            r.target.instance.name if r.target.instance is not None else "<dead node>",
            r.inferred,
        )
        for r in SymbolGraph().relations()
        if r.source.instance is c4
    )
    return dict(c4=names(c4.sub_organization_of), relations_of_c4=graph)


expected = run(False)
got = run(True)
print("expected (fresh graph)          :", expected)
print("got (after the garbage prefix)  :", got)
if got != expected:
    print("VIOLATION: a garbage-collected instance shows up (as None) in the consequences of a new relation")
    sys.exit(1)
print("ok")
