"""
defect7 - a homogeneous tuple of builtins `Tuple[int, ...]` crashes the class diagram / generator.

Property clause: "lists of builtins -> a column for every JSON-list field".  tuple is one of WrappedField.container_types and
Tuple[int, int] / List[int] / Set[int] all become JSON columns, but for Tuple[int, ...] is_collection_of_builtins asks
`Ellipsis.__module__` and raises AttributeError while the ClassDiagram is being built.
"""
import importlib, os, sys, tempfile, textwrap, traceback

WORK = tempfile.mkdtemp(prefix="c06_hunt_")
sys.path.insert(0, WORK)


def write_module(name, source):
    """Write a model module into the scratch directory and import it."""
    with open(os.path.join(WORK, name + ".py"), "w") as f:
        f.write(textwrap.dedent(source))
    importlib.invalidate_caches()
    return importlib.import_module(name)


def generate(classes, out_name, **ormatic_kwargs):
    """Run ORMatic over the classes (public API, as in doc/ormatic/orm_generation.rst)."""
    from krrood.class_diagrams.class_diagram import ClassDiagram
    from krrood.ormatic.ormatic import ORMatic

    diagram = ClassDiagram(list(classes))
    ormatic = ORMatic(class_dependency_graph=diagram, **ormatic_kwargs)
    ormatic.make_all_tables()
    path = os.path.join(WORK, out_name + ".py")
    with open(path, "w") as f:
        ormatic.to_sqlalchemy_file(f)
    return path


def load(out_name):
    """Import the generated module, configure the mappers and create the schema."""
    from sqlalchemy import create_engine
    from sqlalchemy.orm import configure_mappers

    importlib.invalidate_caches()
    generated = importlib.import_module(out_name)
    configure_mappers()
    engine = create_engine("sqlite://")
    generated.Base.metadata.create_all(engine)
    return generated, engine


def columns_of(dao):
    from sqlalchemy import inspect

    return {k: str(v.columns[0].type) for k, v in inspect(dao).column_attrs.items()}


def relationships_of(dao):
    from sqlalchemy import inspect

    return {r.key: r.mapper.class_.__name__ for r in inspect(dao).relationships}

model = write_module(
    "d7_model",
    '''
    from dataclasses import dataclass
    from typing import Tuple


    @dataclass
    class Polyline:
        fixed: Tuple[int, int] = (0, 0)
        samples: Tuple[int, ...] = ()
    ''',
)

print("expected: PolylineDAO with JSON columns `fixed` and `samples`")
try:
    generate([model.Polyline], "d7_generated")
    generated, engine = load("d7_generated")
    cols = columns_of(generated.PolylineDAO)
    print("got     :", cols)
    ok = cols.get("samples") == "JSON" and cols.get("fixed") == "JSON"
except Exception as e:
    traceback.print_exc()
    print(f"got     : {type(e).__name__}: {e}")
    ok = False
sys.exit(0 if ok else 1)
