"""
defect1 - Optional written as `T | None` (PEP 604) makes ORMatic crash.

Property clause: "for every model drawn from the supported grammar: ... Optional scalars ... Optional references"
-> the generator has to produce a module.  `int | None` is the same type as Optional[int].
"""
import importlib, os, sys, tempfile, textwrap, traceback

WORK = tempfile.mkdtemp(prefix="c06_hunt_")
sys.path.insert(0, WORK)


def write_module(name, source):
    """Write a model module into the scratch directory and import it."""
    with open(os.path.join(WORK, name + ".py"), "w") as f:
        f.write(textwrap.dedent(source))
    importlib.invalidate_caches()
    return importlib.import_module(name)


def generate(classes, out_name, **ormatic_kwargs):
    """Run ORMatic over the classes (public API, as in doc/ormatic/orm_generation.rst)."""
    from krrood.class_diagrams.class_diagram import ClassDiagram
    from krrood.ormatic.ormatic import ORMatic

    diagram = ClassDiagram(list(classes))
    ormatic = ORMatic(class_dependency_graph=diagram, **ormatic_kwargs)
    ormatic.make_all_tables()
    path = os.path.join(WORK, out_name + ".py")
    with open(path, "w") as f:
        ormatic.to_sqlalchemy_file(f)
    return path


def load(out_name):
    """Import the generated module, configure the mappers and create the schema."""
    from sqlalchemy import create_engine
    from sqlalchemy.orm import configure_mappers

    importlib.invalidate_caches()
    generated = importlib.import_module(out_name)
    configure_mappers()
    engine = create_engine("sqlite://")
    generated.Base.metadata.create_all(engine)
    return generated, engine


def columns_of(dao):
    from sqlalchemy import inspect

    return {k: str(v.columns[0].type) for k, v in inspect(dao).column_attrs.items()}


def relationships_of(dao):
    from sqlalchemy import inspect

    return {r.key: r.mapper.class_.__name__ for r in inspect(dao).relationships}

model = write_module(
    "d1_model",
    '''
    from __future__ import annotations
    from dataclasses import dataclass
    from typing import Optional


    @dataclass
    class Owner:
        name: str = ""


    @dataclass
    class Thing:
        size: int | None = None          # same as Optional[int]
        owner: Owner | None = None       # same as Optional[Owner]
    ''',
)

print("expected: ThingDAO with a nullable column `size`, FK column `owner_id` and relationship `owner`")
try:
    generate([model.Owner, model.Thing], "d1_generated")
    generated, engine = load("d1_generated")
    cols, rels = columns_of(generated.ThingDAO), relationships_of(generated.ThingDAO)
    print("got     : columns", cols, "relationships", rels)
    ok = {"size", "owner_id"} <= set(cols) and rels == {"owner": "OwnerDAO"}
except Exception as e:
    traceback.print_exc()
    print(f"got     : {type(e).__name__}: {e}")
    ok = False

# control: the typing.Optional spelling of the very same model works
control = write_module(
    "d1_control",
    '''
    from __future__ import annotations
    from dataclasses import dataclass
    from typing import Optional


    @dataclass
    class Owner2:
        name: str = ""


    @dataclass
    class Thing2:
        size: Optional[int] = None
        owner: Optional[Owner2] = None
    ''',
)
generate([control.Owner2, control.Thing2], "d1_control_generated")
g2, _ = load("d1_control_generated")
print("control (Optional[...] spelling):", columns_of(g2.Thing2DAO), relationships_of(g2.Thing2DAO))

sys.exit(0 if ok else 1)
