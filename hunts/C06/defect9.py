"""
defect9 - DAO / table / association names are derived from the bare class __name__ (and its lower-cased form),
so distinct classes collide.

Property clause: "it contains one DAO per class ... whose schema can be created".
 (a) two classes with the same __name__ in different modules -> both become `PointDAO` / table 'PointDAO':
     the module cannot be imported ("Table 'PointDAO' is already defined").
 (b) two classes whose names differ only in case (`Ab`, `AB`) with an equally named collection ->
     both association tables are called 'abdao_items_association'.
"""
import importlib, os, sys, tempfile, textwrap, traceback

WORK = tempfile.mkdtemp(prefix="c06_hunt_")
sys.path.insert(0, WORK)


def write_module(name, source):
    """Write a model module into the scratch directory and import it."""
    with open(os.path.join(WORK, name + ".py"), "w") as f:
        f.write(textwrap.dedent(source))
    importlib.invalidate_caches()
    return importlib.import_module(name)


def generate(classes, out_name, **ormatic_kwargs):
    """Run ORMatic over the classes (public API, as in doc/ormatic/orm_generation.rst)."""
    from krrood.class_diagrams.class_diagram import ClassDiagram
    from krrood.ormatic.ormatic import ORMatic

    diagram = ClassDiagram(list(classes))
    ormatic = ORMatic(class_dependency_graph=diagram, **ormatic_kwargs)
    ormatic.make_all_tables()
    path = os.path.join(WORK, out_name + ".py")
    with open(path, "w") as f:
        ormatic.to_sqlalchemy_file(f)
    return path


def load(out_name):
    """Import the generated module, configure the mappers and create the schema."""
    from sqlalchemy import create_engine
    from sqlalchemy.orm import configure_mappers

    importlib.invalidate_caches()
    generated = importlib.import_module(out_name)
    configure_mappers()
    engine = create_engine("sqlite://")
    generated.Base.metadata.create_all(engine)
    return generated, engine


def columns_of(dao):
    from sqlalchemy import inspect

    return {k: str(v.columns[0].type) for k, v in inspect(dao).column_attrs.items()}


def relationships_of(dao):
    from sqlalchemy import inspect

    return {r.key: r.mapper.class_.__name__ for r in inspect(dao).relationships}

failures = 0

geo = write_module(
    "d9_geometry",
    '''
    from dataclasses import dataclass


    @dataclass
    class Point:
        x: int = 0
    ''',
)
ui = write_module(
    "d9_ui",
    '''
    from dataclasses import dataclass


    @dataclass
    class Point:
        label: str = ""
    ''',
)
print("(a) expected: two DAOs, one per class (d9_geometry.Point and d9_ui.Point)")
try:
    generate([geo.Point, ui.Point], "d9_generated_a")
    generated, engine = load("d9_generated_a")
    daos = [c for n, c in vars(generated).items() if isinstance(c, type) and n.endswith("DAO")]
    originals = {d.original_class() for d in daos}
    print("(a) got     : DAOs for", originals)
    if originals != {geo.Point, ui.Point}:
        failures += 1
except Exception as e:
    print(f"(a) got     : {type(e).__name__}: {e}")
    failures += 1

case = write_module(
    "d9_case",
    '''
    from dataclasses import dataclass, field
    from typing import List


    @dataclass
    class Item:
        v: int = 0


    @dataclass
    class Ab:
        items: List[Item] = field(default_factory=list)


    @dataclass
    class AB:
        items: List[Item] = field(default_factory=list)
    ''',
)
print("(b) expected: AbDAO.items and ABDAO.items each backed by their own association table")
try:
    generate([case.Item, case.Ab, case.AB], "d9_generated_b")
    generated, engine = load("d9_generated_b")
    print("(b) got     : tables", sorted(generated.Base.metadata.tables))
except Exception as e:
    print(f"(b) got     : {type(e).__name__}: {e}")
    failures += 1

sys.exit(1 if failures else 0)
