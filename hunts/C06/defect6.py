"""
defect6 - Optional written as Union[None, T] (None first) is analysed as "Optional[NoneType]".

Property clause: "Optional scalars / Optional references ... generates a module that imports".
WrappedField.contained_type takes get_args(...)[0], which is NoneType for Union[None, int]; NoneType is listed as a
builtin type, so a column `Mapped[typing.Optional[builtins.NoneType]]` is emitted and the module cannot be imported.
For a reference (Union[None, Owner]) the same thing happens, the relationship is never generated.
"""
import importlib, os, sys, tempfile, textwrap, traceback

WORK = tempfile.mkdtemp(prefix="c06_hunt_")
sys.path.insert(0, WORK)


def write_module(name, source):
    """Write a model module into the scratch directory and import it."""
    with open(os.path.join(WORK, name + ".py"), "w") as f:
        f.write(textwrap.dedent(source))
    importlib.invalidate_caches()
    return importlib.import_module(name)


def generate(classes, out_name, **ormatic_kwargs):
    """Run ORMatic over the classes (public API, as in doc/ormatic/orm_generation.rst)."""
    from krrood.class_diagrams.class_diagram import ClassDiagram
    from krrood.ormatic.ormatic import ORMatic

    diagram = ClassDiagram(list(classes))
    ormatic = ORMatic(class_dependency_graph=diagram, **ormatic_kwargs)
    ormatic.make_all_tables()
    path = os.path.join(WORK, out_name + ".py")
    with open(path, "w") as f:
        ormatic.to_sqlalchemy_file(f)
    return path


def load(out_name):
    """Import the generated module, configure the mappers and create the schema."""
    from sqlalchemy import create_engine
    from sqlalchemy.orm import configure_mappers

    importlib.invalidate_caches()
    generated = importlib.import_module(out_name)
    configure_mappers()
    engine = create_engine("sqlite://")
    generated.Base.metadata.create_all(engine)
    return generated, engine


def columns_of(dao):
    from sqlalchemy import inspect

    return {k: str(v.columns[0].type) for k, v in inspect(dao).column_attrs.items()}


def relationships_of(dao):
    from sqlalchemy import inspect

    return {r.key: r.mapper.class_.__name__ for r in inspect(dao).relationships}

model = write_module(
    "d6_model",
    '''
    from dataclasses import dataclass
    from typing import Union


    @dataclass
    class Thing:
        size: Union[None, int] = None      # == Optional[int]
    ''',
)

print("expected: ThingDAO with a nullable INTEGER column `size`")
try:
    path = generate([model.Thing], "d6_generated")
    generated, engine = load("d6_generated")
    cols = columns_of(generated.ThingDAO)
    print("got     :", cols)
    ok = cols.get("size") == "INTEGER"
except Exception as e:
    print(f"got     : {type(e).__name__}: {e}")
    print("          offending line:", [l.strip() for l in open(path) if l.strip().startswith("size")])
    ok = False
sys.exit(0 if ok else 1)
