"""
borderline - shapes that are arguably just outside the stated grammar but are handled inconsistently.
Not counted as confirmed defects; see notes.md.
 (a) List[datetime.datetime]: datetime counts as builtin scalar, but a list of it yields NOTHING (silently dropped).
 (b) bytes scalar: silently dropped (no column, no error).
 (c) List[SomeEnum]: generation crashes with ClassIsUnMappedInClassDiagram.
"""
import importlib, os, sys, tempfile, textwrap, traceback

WORK = tempfile.mkdtemp(prefix="c06_hunt_")
sys.path.insert(0, WORK)


def write_module(name, source):
    """Write a model module into the scratch directory and import it."""
    with open(os.path.join(WORK, name + ".py"), "w") as f:
        f.write(textwrap.dedent(source))
    importlib.invalidate_caches()
    return importlib.import_module(name)


def generate(classes, out_name, **ormatic_kwargs):
    """Run ORMatic over the classes (public API, as in doc/ormatic/orm_generation.rst)."""
    from krrood.class_diagrams.class_diagram import ClassDiagram
    from krrood.ormatic.ormatic import ORMatic

    diagram = ClassDiagram(list(classes))
    ormatic = ORMatic(class_dependency_graph=diagram, **ormatic_kwargs)
    ormatic.make_all_tables()
    path = os.path.join(WORK, out_name + ".py")
    with open(path, "w") as f:
        ormatic.to_sqlalchemy_file(f)
    return path


def load(out_name):
    """Import the generated module, configure the mappers and create the schema."""
    from sqlalchemy import create_engine
    from sqlalchemy.orm import configure_mappers

    importlib.invalidate_caches()
    generated = importlib.import_module(out_name)
    configure_mappers()
    engine = create_engine("sqlite://")
    generated.Base.metadata.create_all(engine)
    return generated, engine


def columns_of(dao):
    from sqlalchemy import inspect

    return {k: str(v.columns[0].type) for k, v in inspect(dao).column_attrs.items()}


def relationships_of(dao):
    from sqlalchemy import inspect

    return {r.key: r.mapper.class_.__name__ for r in inspect(dao).relationships}

model = write_module(
    "bl_model",
    '''
    import datetime, enum
    from dataclasses import dataclass, field
    from typing import List


    class Color(enum.Enum):
        R = 1


    @dataclass
    class Log:
        stamps: List[datetime.datetime] = field(default_factory=list)
        blob: bytes = b""
        n: int = 0


    @dataclass
    class Palette:
        colors: List[Color] = field(default_factory=list)
    ''',
)
bad = 0
generate([model.Log], "bl_generated_a")
generated, engine = load("bl_generated_a")
cols = columns_of(generated.LogDAO)
print("(a,b) expected columns stamps, blob, n (or an error); got:", cols)
bad += "stamps" not in cols
bad += "blob" not in cols
try:
    generate([model.Palette], "bl_generated_c")
    print("(c) generated")
except Exception as e:
    print(f"(c) got {type(e).__name__}: {e}")
    bad += 1
sys.exit(1 if bad else 0)
