"""
defect5 - an enum (or dataclass) declared inside another class is referenced by __name__ instead of __qualname__.

Property clause: "generates a module that imports ...; a column for every public ... enum ... field".
`Task.Status` is emitted as `<module>.Status`, which does not exist, so the generated module cannot be imported.
"""
import importlib, os, sys, tempfile, textwrap, traceback

WORK = tempfile.mkdtemp(prefix="c06_hunt_")
sys.path.insert(0, WORK)


def write_module(name, source):
    """Write a model module into the scratch directory and import it."""
    with open(os.path.join(WORK, name + ".py"), "w") as f:
        f.write(textwrap.dedent(source))
    importlib.invalidate_caches()
    return importlib.import_module(name)


def generate(classes, out_name, **ormatic_kwargs):
    """Run ORMatic over the classes (public API, as in doc/ormatic/orm_generation.rst)."""
    from krrood.class_diagrams.class_diagram import ClassDiagram
    from krrood.ormatic.ormatic import ORMatic

    diagram = ClassDiagram(list(classes))
    ormatic = ORMatic(class_dependency_graph=diagram, **ormatic_kwargs)
    ormatic.make_all_tables()
    path = os.path.join(WORK, out_name + ".py")
    with open(path, "w") as f:
        ormatic.to_sqlalchemy_file(f)
    return path


def load(out_name):
    """Import the generated module, configure the mappers and create the schema."""
    from sqlalchemy import create_engine
    from sqlalchemy.orm import configure_mappers

    importlib.invalidate_caches()
    generated = importlib.import_module(out_name)
    configure_mappers()
    engine = create_engine("sqlite://")
    generated.Base.metadata.create_all(engine)
    return generated, engine


def columns_of(dao):
    from sqlalchemy import inspect

    return {k: str(v.columns[0].type) for k, v in inspect(dao).column_attrs.items()}


def relationships_of(dao):
    from sqlalchemy import inspect

    return {r.key: r.mapper.class_.__name__ for r in inspect(dao).relationships}

model = write_module(
    "d5_model",
    '''
    import enum
    from dataclasses import dataclass


    @dataclass
    class Task:
        class Status(enum.Enum):
            OPEN = 1
            DONE = 2

        title: str = ""
        status: Status = Status.OPEN
    ''',
)

print("expected: TaskDAO with columns database_id, title, status (Enum)")
try:
    path = generate([model.Task], "d5_generated")
    generated, engine = load("d5_generated")
    cols = columns_of(generated.TaskDAO)
    print("got     :", cols)
    ok = "status" in cols
except Exception as e:
    print(f"got     : {type(e).__name__}: {e}")
    print("          offending line:", [l.strip() for l in open(path) if "status" in l])
    ok = False
sys.exit(0 if ok else 1)
