"""
defect8 - a public scalar field called `metadata` makes the generated module un-importable.

Property clause: "generates a module that imports ...; a column for every public scalar field".
`metadata` is reserved by SQLAlchemy's declarative API; ORMatic copies the field name verbatim as attribute name.
"""
import importlib, os, sys, tempfile, textwrap, traceback

WORK = tempfile.mkdtemp(prefix="c06_hunt_")
sys.path.insert(0, WORK)


def write_module(name, source):
    """Write a model module into the scratch directory and import it."""
    with open(os.path.join(WORK, name + ".py"), "w") as f:
        f.write(textwrap.dedent(source))
    importlib.invalidate_caches()
    return importlib.import_module(name)


def generate(classes, out_name, **ormatic_kwargs):
    """Run ORMatic over the classes (public API, as in doc/ormatic/orm_generation.rst)."""
    from krrood.class_diagrams.class_diagram import ClassDiagram
    from krrood.ormatic.ormatic import ORMatic

    diagram = ClassDiagram(list(classes))
    ormatic = ORMatic(class_dependency_graph=diagram, **ormatic_kwargs)
    ormatic.make_all_tables()
    path = os.path.join(WORK, out_name + ".py")
    with open(path, "w") as f:
        ormatic.to_sqlalchemy_file(f)
    return path


def load(out_name):
    """Import the generated module, configure the mappers and create the schema."""
    from sqlalchemy import create_engine
    from sqlalchemy.orm import configure_mappers

    importlib.invalidate_caches()
    generated = importlib.import_module(out_name)
    configure_mappers()
    engine = create_engine("sqlite://")
    generated.Base.metadata.create_all(engine)
    return generated, engine


def columns_of(dao):
    from sqlalchemy import inspect

    return {k: str(v.columns[0].type) for k, v in inspect(dao).column_attrs.items()}


def relationships_of(dao):
    from sqlalchemy import inspect

    return {r.key: r.mapper.class_.__name__ for r in inspect(dao).relationships}

model = write_module(
    "d8_model",
    '''
    from dataclasses import dataclass


    @dataclass
    class Document:
        title: str = ""
        metadata: str = ""
    ''',
)

print("expected: DocumentDAO with columns database_id, title, metadata")
try:
    generate([model.Document], "d8_generated")
    generated, engine = load("d8_generated")
    cols = columns_of(generated.DocumentDAO)
    print("got     :", cols)
    ok = "metadata" in cols
except Exception as e:
    print(f"got     : {type(e).__name__}: {e}")
    ok = False
sys.exit(0 if ok else 1)
