"""
defect4 - configuration `inheritance_strategy=InheritanceStrategy.SINGLE` yields mappers that cannot be configured.

Property clause: quantifier "over programs, configurations" - "generates a module that imports, whose mappers configure".
With SINGLE the generator still emits a separate __tablename__ and a FK primary key per subclass (i.e. joined
tables) but omits the `inherit_condition`.  As soon as a subclass references a class of its own hierarchy there are
two foreign keys between child and parent table and SQLAlchemy cannot determine the inherit condition.
(The same model works with the default JOINED configuration.)
"""
import importlib, os, sys, tempfile, textwrap, traceback

WORK = tempfile.mkdtemp(prefix="c06_hunt_")
sys.path.insert(0, WORK)


def write_module(name, source):
    """Write a model module into the scratch directory and import it."""
    with open(os.path.join(WORK, name + ".py"), "w") as f:
        f.write(textwrap.dedent(source))
    importlib.invalidate_caches()
    return importlib.import_module(name)


def generate(classes, out_name, **ormatic_kwargs):
    """Run ORMatic over the classes (public API, as in doc/ormatic/orm_generation.rst)."""
    from krrood.class_diagrams.class_diagram import ClassDiagram
    from krrood.ormatic.ormatic import ORMatic

    diagram = ClassDiagram(list(classes))
    ormatic = ORMatic(class_dependency_graph=diagram, **ormatic_kwargs)
    ormatic.make_all_tables()
    path = os.path.join(WORK, out_name + ".py")
    with open(path, "w") as f:
        ormatic.to_sqlalchemy_file(f)
    return path


def load(out_name):
    """Import the generated module, configure the mappers and create the schema."""
    from sqlalchemy import create_engine
    from sqlalchemy.orm import configure_mappers

    importlib.invalidate_caches()
    generated = importlib.import_module(out_name)
    configure_mappers()
    engine = create_engine("sqlite://")
    generated.Base.metadata.create_all(engine)
    return generated, engine


def columns_of(dao):
    from sqlalchemy import inspect

    return {k: str(v.columns[0].type) for k, v in inspect(dao).column_attrs.items()}


def relationships_of(dao):
    from sqlalchemy import inspect

    return {r.key: r.mapper.class_.__name__ for r in inspect(dao).relationships}

from krrood.ormatic.utils import InheritanceStrategy

model = write_module(
    "d4_model",
    '''
    from __future__ import annotations
    from dataclasses import dataclass
    from typing import Optional


    @dataclass
    class Node:
        value: int = 0


    @dataclass
    class Branch(Node):
        parent: Optional[Node] = None
    ''',
)

print("expected: with inheritance_strategy=SINGLE the module imports, mappers configure, schema is created")
try:
    generate([model.Node, model.Branch], "d4_generated", inheritance_strategy=InheritanceStrategy.SINGLE)
    generated, engine = load("d4_generated")
    print("got     : ok, tables", sorted(generated.Base.metadata.tables))
    ok = True
except Exception as e:
    print(f"got     : {type(e).__name__}: {e}")
    ok = False
sys.exit(0 if ok else 1)
