"""
defect10 - (borderline: needs multiple inheritance) a DAO is emitted BEFORE the DAO it derives from.

Property clause: "mirroring the inheritance chain ... in any declaration order ... generates a module that imports".
C(M, Mixin) where M(A) is NOT part of the diagram, A and Mixin are.  WrappedTable.parent_table follows the MRO and picks A,
but ORMatic._create_inheritance_graph only adds the "ancestor through unmapped bases" edge when the class has no mapped
direct base at all.  C has one (Mixin), so there is no edge A -> C and the topological order may put C first:
`class CDAO(ADAO, ...)` is then written above `class ADAO` -> NameError on import.  It depends on the order of the class list.
"""
import importlib, os, sys, tempfile, textwrap, traceback

WORK = tempfile.mkdtemp(prefix="c06_hunt_")
sys.path.insert(0, WORK)


def write_module(name, source):
    """Write a model module into the scratch directory and import it."""
    with open(os.path.join(WORK, name + ".py"), "w") as f:
        f.write(textwrap.dedent(source))
    importlib.invalidate_caches()
    return importlib.import_module(name)


def generate(classes, out_name, **ormatic_kwargs):
    """Run ORMatic over the classes (public API, as in doc/ormatic/orm_generation.rst)."""
    from krrood.class_diagrams.class_diagram import ClassDiagram
    from krrood.ormatic.ormatic import ORMatic

    diagram = ClassDiagram(list(classes))
    ormatic = ORMatic(class_dependency_graph=diagram, **ormatic_kwargs)
    ormatic.make_all_tables()
    path = os.path.join(WORK, out_name + ".py")
    with open(path, "w") as f:
        ormatic.to_sqlalchemy_file(f)
    return path


def load(out_name):
    """Import the generated module, configure the mappers and create the schema."""
    from sqlalchemy import create_engine
    from sqlalchemy.orm import configure_mappers

    importlib.invalidate_caches()
    generated = importlib.import_module(out_name)
    configure_mappers()
    engine = create_engine("sqlite://")
    generated.Base.metadata.create_all(engine)
    return generated, engine


def columns_of(dao):
    from sqlalchemy import inspect

    return {k: str(v.columns[0].type) for k, v in inspect(dao).column_attrs.items()}


def relationships_of(dao):
    from sqlalchemy import inspect

    return {r.key: r.mapper.class_.__name__ for r in inspect(dao).relationships}

model = write_module(
    "d10_model",
    '''
    from dataclasses import dataclass


    @dataclass
    class A:
        x: int = 0


    @dataclass
    class M(A):          # not handed to ORMatic
        m: int = 0


    @dataclass
    class Mixin:
        k: int = 0


    @dataclass
    class C(M, Mixin):
        c: int = 0
    ''',
)

failures = 0
for i, order in enumerate((["Mixin", "A", "C"], ["A", "Mixin", "C"])):
    print(f"class list {order}: expected an importable module with CDAO deriving from ADAO")
    try:
        path = generate([getattr(model, n) for n in order], f"d10_generated_{i}")
        generated, engine = load(f"d10_generated_{i}")
        print("   got: ok, CDAO bases", [b.__name__ for b in generated.CDAO.__bases__])
    except Exception as e:
        print(f"   got: {type(e).__name__}: {e}")
        print("        class statements in file order:", [l.split("(")[0] for l in open(path) if l.startswith("class ")])
        failures += 1
sys.exit(1 if failures else 0)
