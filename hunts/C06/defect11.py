"""
defect11 - generating twice from the same ClassDiagram gives a different (and broken) module when an
alternative mapping is configured.

Property clause: "Generation is deterministic" / "one DAO per class" / "generates a module that imports".
ORMatic.__post_init__ adds the AlternativeMapping class as a node to the ClassDiagram it was given (and never removes
it).  A second ORMatic over the same diagram therefore sees the mapping class as an ordinary model class, creates a
table for it AND again for the class it maps: `class XMDAO` is emitted twice and the module cannot be imported.
(Without alternative mappings a second generation is byte-identical.)
"""
import importlib, os, sys, tempfile, textwrap, traceback

WORK = tempfile.mkdtemp(prefix="c06_hunt_")
sys.path.insert(0, WORK)


def write_module(name, source):
    """Write a model module into the scratch directory and import it."""
    with open(os.path.join(WORK, name + ".py"), "w") as f:
        f.write(textwrap.dedent(source))
    importlib.invalidate_caches()
    return importlib.import_module(name)


def generate(classes, out_name, **ormatic_kwargs):
    """Run ORMatic over the classes (public API, as in doc/ormatic/orm_generation.rst)."""
    from krrood.class_diagrams.class_diagram import ClassDiagram
    from krrood.ormatic.ormatic import ORMatic

    diagram = ClassDiagram(list(classes))
    ormatic = ORMatic(class_dependency_graph=diagram, **ormatic_kwargs)
    ormatic.make_all_tables()
    path = os.path.join(WORK, out_name + ".py")
    with open(path, "w") as f:
        ormatic.to_sqlalchemy_file(f)
    return path


def load(out_name):
    """Import the generated module, configure the mappers and create the schema."""
    from sqlalchemy import create_engine
    from sqlalchemy.orm import configure_mappers

    importlib.invalidate_caches()
    generated = importlib.import_module(out_name)
    configure_mappers()
    engine = create_engine("sqlite://")
    generated.Base.metadata.create_all(engine)
    return generated, engine


def columns_of(dao):
    from sqlalchemy import inspect

    return {k: str(v.columns[0].type) for k, v in inspect(dao).column_attrs.items()}


def relationships_of(dao):
    from sqlalchemy import inspect

    return {r.key: r.mapper.class_.__name__ for r in inspect(dao).relationships}

model = write_module(
    "d11_model",
    '''
    from __future__ import annotations
    from dataclasses import dataclass
    from typing import Optional
    from krrood.ormatic.dao import AlternativeMapping


    @dataclass
    class X:
        v: int = 0


    @dataclass
    class XM(AlternativeMapping[X]):
        v: int = 0

        @classmethod
        def create_instance(cls, obj):
            return cls(obj.v)

        def create_from_dao(self):
            return X(self.v)


    @dataclass
    class A:
        x: Optional[X] = None
    ''',
)

from krrood.class_diagrams.class_diagram import ClassDiagram
from krrood.ormatic.ormatic import ORMatic

diagram = ClassDiagram([model.A, model.X])
texts = []
for i in range(2):
    ormatic = ORMatic(class_dependency_graph=diagram, alternative_mappings=[model.XM])
    ormatic.make_all_tables()
    path = os.path.join(WORK, f"d11_generated_{i}.py")
    with open(path, "w") as f:
        ormatic.to_sqlalchemy_file(f)
    texts.append(open(path).read())

print("expected: both generations identical, each with exactly one `class XMDAO`")
print("got     : identical =", texts[0] == texts[1], "| `class XMDAO` occurrences:", [t.count("class XMDAO(") for t in texts])
ok = texts[0] == texts[1]
try:
    load("d11_generated_1")
    print("got     : second module imports")
except Exception as e:
    print(f"got     : second module fails: {type(e).__name__}: {e}")
    ok = False
sys.exit(0 if ok else 1)
