"""
defect2 - the derived foreign-key column name `<field>_id` collides with a user field of that name.

Property clause: "a column for every public scalar ... field, a relationship for every reference".
A class with a reference `owner: Owner` and a scalar `owner_id: int` gets ONE attribute `owner_id`
(the generated FK column silently replaces the user's column); the scalar value is lost on a round trip.
The same happens across inheritance levels (parent has scalar `owner_id`, child has reference `owner`).
"""
import importlib, os, sys, tempfile, textwrap, traceback

WORK = tempfile.mkdtemp(prefix="c06_hunt_")
sys.path.insert(0, WORK)


def write_module(name, source):
    """Write a model module into the scratch directory and import it."""
    with open(os.path.join(WORK, name + ".py"), "w") as f:
        f.write(textwrap.dedent(source))
    importlib.invalidate_caches()
    return importlib.import_module(name)


def generate(classes, out_name, **ormatic_kwargs):
    """Run ORMatic over the classes (public API, as in doc/ormatic/orm_generation.rst)."""
    from krrood.class_diagrams.class_diagram import ClassDiagram
    from krrood.ormatic.ormatic import ORMatic

    diagram = ClassDiagram(list(classes))
    ormatic = ORMatic(class_dependency_graph=diagram, **ormatic_kwargs)
    ormatic.make_all_tables()
    path = os.path.join(WORK, out_name + ".py")
    with open(path, "w") as f:
        ormatic.to_sqlalchemy_file(f)
    return path


def load(out_name):
    """Import the generated module, configure the mappers and create the schema."""
    from sqlalchemy import create_engine
    from sqlalchemy.orm import configure_mappers

    importlib.invalidate_caches()
    generated = importlib.import_module(out_name)
    configure_mappers()
    engine = create_engine("sqlite://")
    generated.Base.metadata.create_all(engine)
    return generated, engine


def columns_of(dao):
    from sqlalchemy import inspect

    return {k: str(v.columns[0].type) for k, v in inspect(dao).column_attrs.items()}


def relationships_of(dao):
    from sqlalchemy import inspect

    return {r.key: r.mapper.class_.__name__ for r in inspect(dao).relationships}

model = write_module(
    "d2_model",
    '''
    from __future__ import annotations
    from dataclasses import dataclass
    from typing import Optional


    @dataclass
    class Owner:
        name: str = ""


    @dataclass
    class Car:
        owner: Optional[Owner] = None
        owner_id: int = 0            # e.g. an external registry number - an ordinary scalar field
    ''',
)

generate([model.Owner, model.Car], "d2_generated")
generated, engine = load("d2_generated")

from sqlalchemy import inspect, select
from sqlalchemy.orm import Session
from krrood.ormatic.dao import to_dao

table = generated.CarDAO.__table__
owner_id_columns = [c for c in table.columns if c.name == "owner_id"]
print("expected: CarDAO keeps the scalar `owner_id` (plain INTEGER, no foreign key) AND a separate FK column for `owner`")
print("got     : CarDAO columns", [(c.name, str(c.type), [str(fk.column) for fk in c.foreign_keys]) for c in table.columns])

structural_ok = (
    len(table.columns) == 3  # database_id, owner_id (scalar), <fk for owner>
    and any(not c.foreign_keys for c in owner_id_columns)
)

car = model.Car(owner=model.Owner("ann"), owner_id=4711)
session = Session(engine)
session.add(to_dao(car))
session.commit()
session.expunge_all()
loaded = session.scalars(select(generated.CarDAO)).one().from_dao()
print("expected round trip:", car)
print("got      round trip:", loaded)
roundtrip_ok = loaded == car

sys.exit(0 if structural_ok and roundtrip_ok else 1)
