"""
defect3 - user fields named like the generated bookkeeping columns (`database_id`, `polymorphic_type`).

Property clause: "generates a module that imports, whose mappers configure ...; a column for every public scalar field".
 (a) a scalar field `database_id` replaces the generated primary key -> the mapper cannot assemble a primary key.
 (b) an int field `polymorphic_type` on the root of a hierarchy is replaced by the String discriminator column:
     the user column disappears / changes type and objects cannot be loaded again.
"""
import importlib, os, sys, tempfile, textwrap, traceback

WORK = tempfile.mkdtemp(prefix="c06_hunt_")
sys.path.insert(0, WORK)


def write_module(name, source):
    """Write a model module into the scratch directory and import it."""
    with open(os.path.join(WORK, name + ".py"), "w") as f:
        f.write(textwrap.dedent(source))
    importlib.invalidate_caches()
    return importlib.import_module(name)


def generate(classes, out_name, **ormatic_kwargs):
    """Run ORMatic over the classes (public API, as in doc/ormatic/orm_generation.rst)."""
    from krrood.class_diagrams.class_diagram import ClassDiagram
    from krrood.ormatic.ormatic import ORMatic

    diagram = ClassDiagram(list(classes))
    ormatic = ORMatic(class_dependency_graph=diagram, **ormatic_kwargs)
    ormatic.make_all_tables()
    path = os.path.join(WORK, out_name + ".py")
    with open(path, "w") as f:
        ormatic.to_sqlalchemy_file(f)
    return path


def load(out_name):
    """Import the generated module, configure the mappers and create the schema."""
    from sqlalchemy import create_engine
    from sqlalchemy.orm import configure_mappers

    importlib.invalidate_caches()
    generated = importlib.import_module(out_name)
    configure_mappers()
    engine = create_engine("sqlite://")
    generated.Base.metadata.create_all(engine)
    return generated, engine


def columns_of(dao):
    from sqlalchemy import inspect

    return {k: str(v.columns[0].type) for k, v in inspect(dao).column_attrs.items()}


def relationships_of(dao):
    from sqlalchemy import inspect

    return {r.key: r.mapper.class_.__name__ for r in inspect(dao).relationships}

failures = 0

# ---------------------------------------------------------------- (a)
model_a = write_module(
    "d3_model_a",
    '''
    from dataclasses import dataclass


    @dataclass
    class Record:
        database_id: int = 0      # e.g. the id of the record in some external database
        value: int = 0
    ''',
)
print("(a) expected: RecordDAO imports and configures, with a primary key and a column for the field `database_id`")
try:
    generate([model_a.Record], "d3_generated_a")
    generated, engine = load("d3_generated_a")
    print("(a) got     :", columns_of(generated.RecordDAO))
except Exception as e:
    print(f"(a) got     : {type(e).__name__}: {e}")
    failures += 1

# ---------------------------------------------------------------- (b)

model_b = write_module(
    "d3_model_b",
    '''
    from dataclasses import dataclass


    @dataclass
    class Shape:
        polymorphic_type: int = 0   # ordinary int field of the user


    @dataclass
    class Circle(Shape):
        radius: int = 0
    ''',
)
print("(b) expected: ShapeDAO has an INTEGER column for the int field `polymorphic_type` and Circle(3, 5) survives a round trip")
try:
    generate([model_b.Shape, model_b.Circle], "d3_generated_b")
    importlib.invalidate_caches()
    generated = importlib.import_module("d3_generated_b")
    from sqlalchemy import create_engine, select
    from sqlalchemy.orm import Session
    from krrood.ormatic.dao import to_dao

    cols = {c.name: str(c.type) for c in generated.ShapeDAO.__table__.columns}
    print("(b) got     : ShapeDAO table columns", cols)
    if not cols.get("polymorphic_type", "").startswith("INT"):
        failures += 1
    engine = create_engine("sqlite://")
    generated.Base.metadata.create_all(engine)
    session = Session(engine)
    original = model_b.Circle(polymorphic_type=3, radius=5)
    session.add(to_dao(original))
    session.commit()
    session.expunge_all()
    loaded = session.scalars(select(generated.ShapeDAO)).one().from_dao()
    print("(b) got     : round trip", loaded)
    if loaded != original:
        failures += 1
except Exception as e:
    print(f"(b) got     : {type(e).__name__}: {e}")
    failures += 1

sys.exit(1 if failures else 0)
