"""
defect4: a literal / a variable with a domain that is used as a condition is always true when it is bound from its
domain, so queries whose condition is False have solutions (the() returns instead of raising NoSolutionFound,
an(..., Exactly(0)) raises GreaterThanExpectedNumberOfSolutions); not_(False) on the other hand has none.
`bool` is part of ConditionType (entity.py), and_(cond, False) is accepted without complaint.
"""
import sys
from dataclasses import dataclass

from krrood.entity_query_language.entity import entity, let, and_, not_
from krrood.entity_query_language.quantify_entity import an, the
from krrood.entity_query_language.failures import NoSolutionFound, GreaterThanExpectedNumberOfSolutions
from krrood.entity_query_language.result_quantification_constraint import Exactly


@dataclass(eq=False)
class P:
    n: int


failed = False
ps = [P(1)]

x = let(P, ps)
try:
    r = the(entity(x, False)).evaluate()
    print("the(entity(x, False)) ->", r, "; expected NoSolutionFound")
    failed = True
except NoSolutionFound:
    print("the(entity(x, False)) raised NoSolutionFound (fine)")

x = let(P, ps)
try:
    r = the(entity(x, and_(x.n == 1, False))).evaluate()
    print("the(entity(x, and_(x.n == 1, False))) ->", r, "; expected NoSolutionFound")
    failed = True
except NoSolutionFound:
    print("the(entity(x, and_(x.n == 1, False))) raised NoSolutionFound (fine)")

x = let(P, ps)
try:
    r = list(an(entity(x, False), quantification=Exactly(0)).evaluate())
    print("an(entity(x, False), Exactly(0)) ->", r, "(fine)")
except GreaterThanExpectedNumberOfSolutions:
    print("an(entity(x, False), Exactly(0)) raised GreaterThanExpectedNumberOfSolutions; expected []")
    failed = True

x = let(P, ps)
try:
    r = the(entity(x, not_(False))).evaluate()
    print("the(entity(x, not_(False))) ->", r, "(fine)")
except NoSolutionFound:
    print("the(entity(x, not_(False))) raised NoSolutionFound; expected P(n=1)")
    failed = True

# the same root cause with a variable: its truth value only counts once it is already bound
n = let(int, [0, 1, 2])
first = list(an(entity(n, n)).evaluate())
n = let(int, [0, 1, 2])
second = list(an(entity(n, n < 2, n)).evaluate())
print("entity(n, n) ->", first, "; entity(n, n < 2, n) ->", second, "; expected [1, 2] and [1]")
if first != [1, 2] or second != [1]:
    failed = True

print("DEFECT REPRODUCED" if failed else "no defect")
sys.exit(1 if failed else 0)
