"""
defect1: a domain that contains the same object twice makes the number of solutions ill-defined.

The first pass over a variable's domain yields every element of the given iterable (duplicates included); every later
pass (second evaluation, or the second iteration of an inner variable inside ONE evaluation) yields the de-duplicated
cache.  Hence the count that the()/an(quantification=...) enforce differs between two evaluations of the same query on
the same data, and inside one evaluation a product {a, b} x [7, 7] has 3 solutions (neither 4 nor 2).
"""
import sys

from krrood.entity_query_language.entity import entity, set_of, let
from krrood.entity_query_language.quantify_entity import an, the
from krrood.entity_query_language.failures import (
    MultipleSolutionFound,
    GreaterThanExpectedNumberOfSolutions,
    LessThanExpectedNumberOfSolutions,
)
from krrood.entity_query_language.result_quantification_constraint import Exactly


def outcome(thunk):
    try:
        return "ok", thunk()
    except MultipleSolutionFound:
        return "MultipleSolutionFound", None
    except GreaterThanExpectedNumberOfSolutions:
        return "GreaterThanExpectedNumberOfSolutions", None
    except LessThanExpectedNumberOfSolutions:
        return "LessThanExpectedNumberOfSolutions", None


failed = False

# (a) the(): same query, same data, evaluated twice
query = the(entity(let(int, [5, 5])))
first, second = outcome(query.evaluate), outcome(query.evaluate)
print("the(entity(let(int, [5, 5]))): 1st evaluation ->", first, "| 2nd evaluation ->", second)
print("   expected: the same outcome both times")
if first != second:
    failed = True

# (b) an(): one evaluation, product of two variables
counts = {}
for k in (2, 3, 4):
    x, y = let(str, ["a", "b"]), let(int, [7, 7])
    query = an(set_of([x, y]), quantification=Exactly(k))
    counts[k] = (outcome(lambda: len(list(query.evaluate())))[0], outcome(lambda: len(list(query.evaluate())))[0])
print("an(set_of([x in {a,b}, y in [7,7]]), Exactly(k)) (1st, 2nd evaluation):", counts)
print("   expected: accepted for k=4 (bag reading) or for k=2 (set reading), in both evaluations; never for k=3")
if counts[3][0] == "ok" or counts[3][0] != counts[3][1]:
    failed = True
if not (counts[2] == ("ok", "ok") or counts[4] == ("ok", "ok")):
    failed = True

print("DEFECT REPRODUCED" if failed else "no defect")
sys.exit(1 if failed else 0)
