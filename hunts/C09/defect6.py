"""
defect6 (rule trees, probably belongs to the rule / conclusion property rather than to C09, but it is the solution
count that goes wrong): a rule tree with next_rule whose selected variable is written as let(V, None) (the spelling of
test_generate_drawers / test_add_conclusion) yields, besides the 3 inferred objects, duplicates of them AND unrelated
instances of V that happen to exist in the process.
Union evaluates bindings twice, Next suppresses the conclusion for the repeated binding, the selected variable is then
unbound and - not being marked as inferred - ranges over the symbol graph.
With inference(V)() as the selected variable the same rule tree yields exactly the 3 expected objects.
"""
import sys
from dataclasses import dataclass

from krrood.entity_query_language.entity import entity, let, inference
from krrood.entity_query_language.quantify_entity import an
from krrood.entity_query_language.predicate import Symbol
from krrood.entity_query_language.conclusion import Add
from krrood.entity_query_language.rule import next_rule


@dataclass(eq=False)
class P(Symbol):
    n: int


@dataclass(eq=False)
class V(Symbol):
    p: P


unrelated = V(P(99))
ps = [P(1), P(2), P(3)]


def build(selected):
    x = let(P, ps)
    query = an(entity(selected, x.n > 2))
    with query:
        Add(selected, inference(V)(p=x))
        with next_rule(x.n >= 2):
            Add(selected, inference(V)(p=x))
    return query


reference = sorted(v.p.n for v in build(inference(V)()).evaluate())
got = [v.p.n for v in build(let(V, None)).evaluate()]
print("selected = inference(V)():", reference)
print("selected = let(V, None)  :", got, "; expected (in some order) [2, 3, 3]")
failed = sorted(got) != [2, 3, 3]
print("DEFECT REPRODUCED" if failed else "no defect")
sys.exit(1 if failed else 0)
