"""
defect5 (history dependent, lower confidence): with an explicitly given domain the number of solutions a re-evaluated
the()/an() enforces is neither the one of the domain at construction time nor the one at evaluation time; it depends on
how far an earlier evaluation got.  Elements removed from the domain list stay solutions for ever, elements appended are
seen only if no earlier evaluation happened to exhaust the list iterator.
(For domains taken from the symbol graph this was repaired: they are looked up again at every evaluation.)
"""
import sys
from dataclasses import dataclass

from krrood.entity_query_language.entity import entity, let
from krrood.entity_query_language.quantify_entity import an, the
from krrood.entity_query_language.failures import MultipleSolutionFound


@dataclass(eq=False)
class P:
    n: int


def outcome(thunk):
    try:
        return repr(thunk())
    except MultipleSolutionFound:
        return "MultipleSolutionFound"


failed = False

# removal: the list has ONE element when the() is evaluated the second time
domain = [P(1), P(2)]
query = the(entity(let(P, domain)))
before = outcome(query.evaluate)
domain.pop()
after = outcome(query.evaluate)
print("2 elements ->", before, "| after domain.pop() (1 element left) ->", after, "; expected P(n=1)")
if after != "P(n=1)":
    failed = True

# appending: seen or not seen depending on the earlier evaluation
def appended_is_seen(consume_all: bool) -> bool:
    domain = [P(1), P(2)]
    query = an(entity(let(P, domain)))
    iterator = query.evaluate()
    if consume_all:
        list(iterator)
    else:
        next(iterator)
        del iterator
    domain.append(P(3))
    return len(list(query.evaluate())) == 3

seen_after_partial, seen_after_full = appended_is_seen(False), appended_is_seen(True)
print("appended element seen after a partial first evaluation:", seen_after_partial,
      "| after a complete first evaluation:", seen_after_full, "; expected the same answer")
if seen_after_partial != seen_after_full:
    failed = True

print("DEFECT REPRODUCED" if failed else "no defect")
sys.exit(1 if failed else 0)
