"""
defect3: or_ over sides with different variables (Union) yields the very same solution twice, so the() raises
MultipleSolutionFound for a query that has exactly one solution (and an(..., Exactly(1)/AtMost(1)) raises
GreaterThanExpectedNumberOfSolutions).

x ranges over ONE object, y ranges over ONE object, so set_of([x, y], ...) cannot have more than one solution.
"""
import sys
from dataclasses import dataclass

from krrood.entity_query_language.entity import set_of, let, or_
from krrood.entity_query_language.quantify_entity import an, the
from krrood.entity_query_language.failures import MultipleSolutionFound, GreaterThanExpectedNumberOfSolutions
from krrood.entity_query_language.result_quantification_constraint import Exactly


@dataclass(eq=False)
class P:
    n: int


@dataclass(eq=False)
class Q:
    n: int


failed = False
p, q = P(1), Q(2)

x, y = let(P, [p]), let(Q, [q])
try:
    result = the(set_of([x, y], or_(x.n == 1, y.n == 2))).evaluate()
    print("the(...) ->", result[x], result[y])
except MultipleSolutionFound as e:
    print("the(set_of([x, y], or_(x.n == 1, y.n == 2))) raised MultipleSolutionFound; expected the single solution (p, q)")
    failed = True

x, y = let(P, [p]), let(Q, [q])
plain = [(r[x], r[y]) for r in an(set_of([x, y], or_(x.n == 1, y.n == 2))).evaluate()]
print("an(...) without constraint yields", plain, "; expected [(p, q)]")
if len(plain) != 1:
    failed = True

x, y = let(P, [p]), let(Q, [q])
try:
    list(an(set_of([x, y], or_(x.n == 1, y.n == 2)), quantification=Exactly(1)).evaluate())
except GreaterThanExpectedNumberOfSolutions:
    print("an(..., quantification=Exactly(1)) raised GreaterThanExpectedNumberOfSolutions; expected one solution")
    failed = True

print("DEFECT REPRODUCED" if failed else "no defect")
sys.exit(1 if failed else 0)
