"""
defect2: the() re-labels the count errors of quantifiers nested inside it as its own.

The._evaluate__ wraps the evaluation of its whole subtree in
    except LessThanExpectedNumberOfSolutions: raise NoSolutionFound(self)
    except GreaterThanExpectedNumberOfSolutions: raise MultipleSolutionFound(self)
so when a nested an(..., quantification=c) is violated, the user gets "NoSolutionFound: Found 0 solutions ... expected 1
... for The" / "MultipleSolutionFound ... for The" although the() itself never had 0 / several solutions, and the
information which constraint failed (expression, expected_number, found_number) is lost.
"""
import sys
from dataclasses import dataclass

from krrood.entity_query_language.entity import entity, let
from krrood.entity_query_language.quantify_entity import an, the
from krrood.entity_query_language.failures import (
    MultipleSolutionFound,
    NoSolutionFound,
    GreaterThanExpectedNumberOfSolutions,
    LessThanExpectedNumberOfSolutions,
)
from krrood.entity_query_language.result_quantification_constraint import AtLeast, AtMost


@dataclass(eq=False)
class P:
    n: int


failed = False

# (a) nested an(AtLeast(5)) that finds 2 -> should surface as LessThanExpected...(expression=inner, expected 5, found 2)
x, y = let(P, [P(1), P(2), P(3)]), let(P, [P(1), P(2)])
inner = an(entity(y.n), quantification=AtLeast(5))
outer = the(entity(x, x.n == inner))
try:
    outer.evaluate()
    print("(a) no exception at all")
    failed = True
except LessThanExpectedNumberOfSolutions as e:
    print("(a) got", type(e).__name__, "| expression is inner:", e.expression is inner,
          "| expected_number:", e.expected_number, "| found_number:", e.found_number)
    print("    expected LessThanExpectedNumberOfSolutions about the inner an(): expected_number=5, found_number=2")
    if isinstance(e, NoSolutionFound) or e.expression is not inner or e.expected_number != 5 or e.found_number != 2:
        failed = True

# (b) nested an(AtMost(0)) that finds 1; the() itself has NO solution at that point, yet MultipleSolutionFound is raised
x, y = let(P, [P(1), P(2), P(3)]), let(P, [P(7)])
inner = an(entity(y.n), quantification=AtMost(0))
outer = the(entity(x, x.n == inner))
try:
    outer.evaluate()
    print("(b) no exception at all")
    failed = True
except GreaterThanExpectedNumberOfSolutions as e:
    print("(b) got", type(e).__name__, "| expression is inner:", e.expression is inner,
          "| expected_number:", e.expected_number)
    print("    expected GreaterThanExpectedNumberOfSolutions about the inner an() (expected_number=0); the() has no "
          "solution (no x.n equals 7), so MultipleSolutionFound is wrong")
    if isinstance(e, MultipleSolutionFound) or e.expression is not inner:
        failed = True

print("DEFECT REPRODUCED" if failed else "no defect")
sys.exit(1 if failed else 0)
