"""
match_all([...]) on a collection whose members are not hashable (a plain @dataclass: eq=True, __hash__ = None)
crashes, the "same set of elements" comparison is done with set().

Expected: items=match_all([i2]) -> ['g2']
Got:      TypeError: unhashable type: 'Item'      (match_any([i2]) and items=i2 work on the same data)
"""
from __future__ import annotations
import sys
from dataclasses import dataclass, field
from typing import List

from krrood.entity_query_language.predicate import Symbol
from krrood.entity_query_language.symbol_graph import SymbolGraph
from krrood.entity_query_language.quantify_entity import an
from krrood.entity_query_language.match import entity_matching, match_all


@dataclass
class Item(Symbol):
    name: str


@dataclass(eq=False)
class Bag(Symbol):
    name: str
    items: List[Item] = field(default_factory=list)


SymbolGraph()
i1, i2 = Item("x"), Item("y")
bags = [Bag("g1", [i1, i2]), Bag("g2", [i2])]
expected = [g.name for g in bags if len(g.items) == 1 and g.items[0] == i2]
try:
    got = [g.name for g in an(entity_matching(Bag, bags)(items=match_all([i2]))).evaluate()]
except Exception as e:
    got = f"{type(e).__name__}: {e}"
print("items=match_all([i2]): expected", expected, "got", got)
sys.exit(0 if got == expected else 1)
