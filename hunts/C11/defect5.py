"""
A nested match that narrows the attribute's type to a SUBCLASS cannot constrain the attributes of that subclass:
the inner attribute is looked up on the declared (base) type of the outer attribute, not on the match type.
The same happens for attributes declared as Union[...] / Any.

Expected: main=match(SpecialPart)(level=5) -> boxes whose main part is a SpecialPart with level 5.
Got:      NoneWrappedFieldError: Field 'level' of class 'Part' is not wrapped by a WrappedField.
"""
from __future__ import annotations
import sys
from dataclasses import dataclass, field
from typing import List, Optional

from krrood.entity_query_language.predicate import Symbol
from krrood.entity_query_language.symbol_graph import SymbolGraph
from krrood.entity_query_language.quantify_entity import an
from krrood.entity_query_language.match import entity_matching, match


@dataclass(eq=False)
class Part(Symbol):
    name: str


@dataclass(eq=False)
class SpecialPart(Part):
    level: int = 0


@dataclass(eq=False)
class Box(Symbol):
    name: str
    main: Part
    parts: List[Part] = field(default_factory=list)


SymbolGraph()
plain, special = Part("plain"), SpecialPart("special", level=5)
boxes = [Box("b1", plain, [plain]), Box("b2", special, [plain, special])]
bad = False
for label, kwargs, oracle in [
    ("main=match(SpecialPart)(level=5)", lambda: dict(main=match(SpecialPart)(level=5)),
     lambda b: isinstance(b.main, SpecialPart) and b.main.level == 5),
    ("parts=match(SpecialPart)(level=5)", lambda: dict(parts=match(SpecialPart)(level=5)),
     lambda b: any(isinstance(p, SpecialPart) and p.level == 5 for p in b.parts)),
]:
    expected = [b.name for b in boxes if oracle(b)]
    try:
        got = [b.name for b in an(entity_matching(Box, boxes)(**kwargs())).evaluate()]
    except Exception as e:
        got = f"{type(e).__name__}: {e}"
    print(label, ": expected", expected, "got", got)
    bad |= got != expected
sys.exit(1 if bad else 0)
