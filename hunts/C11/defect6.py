"""
A nested match on an Optional attribute whose match type IS the declared type: no type filter is generated, so an
element whose attribute is None either crashes the whole query (inner kwargs) or is accepted as a "Part" (no kwargs).

Expected: main=match(Part)(name="a") -> ['b1'];  main=match(Part)() -> ['b1'] (None is not a Part)
Got:      AttributeError: 'NoneType' object has no attribute 'name';  ['b1', 'b2']
"""
from __future__ import annotations
import sys
from dataclasses import dataclass
from typing import Optional

from krrood.entity_query_language.predicate import Symbol
from krrood.entity_query_language.symbol_graph import SymbolGraph
from krrood.entity_query_language.quantify_entity import an
from krrood.entity_query_language.match import entity_matching, match


@dataclass(eq=False)
class Part(Symbol):
    name: str


@dataclass(eq=False)
class Box(Symbol):
    name: str
    main: Optional[Part] = None


SymbolGraph()
boxes = [Box("b1", Part("a")), Box("b2", None)]
bad = False
for label, pattern, oracle in [
    ('main=match(Part)(name="a")', lambda: match(Part)(name="a"), lambda b: isinstance(b.main, Part) and b.main.name == "a"),
    ("main=match(Part)()", lambda: match(Part)(), lambda b: isinstance(b.main, Part)),
]:
    expected = [b.name for b in boxes if oracle(b)]
    try:
        got = [b.name for b in an(entity_matching(Box, boxes)(main=pattern())).evaluate()]
    except Exception as e:
        got = f"{type(e).__name__}: {e}"
    print(label, ": expected", expected, "got", got)
    bad |= got != expected
sys.exit(1 if bad else 0)
