"""
select(Type)(...) on a COLLECTION attribute: the selected inner part is reported as the WHOLE collection, not as the
member that matched (and an extra, un-asked-for key shows up in the answer).

Expected: answer[part] is the Part with size 2 of the matched box.
Got:      answer[part] is box.parts (the full list, containing parts that do not satisfy the inner pattern).
"""
from __future__ import annotations
import sys
from dataclasses import dataclass, field
from typing import List

from krrood.entity_query_language.predicate import Symbol
from krrood.entity_query_language.symbol_graph import SymbolGraph
from krrood.entity_query_language.quantify_entity import an
from krrood.entity_query_language.match import entity_selection, select


@dataclass(eq=False)
class Part(Symbol):
    name: str
    size: int = 1


@dataclass(eq=False)
class Box(Symbol):
    name: str
    parts: List[Part] = field(default_factory=list)


SymbolGraph()
small, big = Part("small", 1), Part("big", 2)
box1 = Box("box1", [small, big])
boxes = [box1]

box, part = entity_selection(Box, boxes), select(Part)
answers = list(an(box(parts=part(size=2))).evaluate())
bad = False
for answer in answers:
    print("answer[box] =", answer[box].name, "| answer[part] =", answer[part], "| keys:", list(answer.data))
    bad |= answer[part] is not big
    bad |= len(answer.data) != 2
print("expected: answer[part] is Part('big', 2) and exactly the two selected keys")
sys.exit(1 if bad or len(answers) != 1 else 0)
