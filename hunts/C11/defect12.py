"""
A collection attribute annotated Optional[List[X]] is not recognised as a collection: a literal becomes equality
instead of membership (silently no answers) and a nested match cannot be built.

Expected: items=i1 -> ['g1'] ;  items=match(Item)(name="y") -> ['g2']
Got:      [] ;  NoneWrappedFieldError: Field 'name' of class 'List' ...
"""
from __future__ import annotations
import sys
from dataclasses import dataclass
from typing import List, Optional

from krrood.entity_query_language.predicate import Symbol
from krrood.entity_query_language.symbol_graph import SymbolGraph
from krrood.entity_query_language.quantify_entity import an
from krrood.entity_query_language.match import entity_matching, match


@dataclass(eq=False)
class Item(Symbol):
    name: str


@dataclass(eq=False)
class Bag(Symbol):
    name: str
    items: Optional[List[Item]] = None


SymbolGraph()
i1, i2 = Item("x"), Item("y")
bags = [Bag("g1", [i1]), Bag("g2", [i2]), Bag("g3", None)]
bad = False
for label, pattern, oracle in [
    ("items=i1", lambda: i1, lambda g: g.items is not None and i1 in g.items),
    ('items=match(Item)(name="y")', lambda: match(Item)(name="y"), lambda g: any(i.name == "y" for i in g.items or [])),
]:
    expected = [g.name for g in bags if oracle(g)]
    try:
        got = [g.name for g in an(entity_matching(Bag, bags)(items=pattern())).evaluate()]
    except Exception as e:
        got = f"{type(e).__name__}: {e}"
    print(label, ": expected", expected, "got", got)
    bad |= got != expected
sys.exit(1 if bad else 0)
