"""
A nested match (or a literal collection, or match_any(Type)(...)) on a COLLECTION attribute returns the matched
domain element once per collection member that satisfies the inner pattern.

Expected: the one box that has a part of size 1 is returned once; the(...) returns it.
Got:      it is returned twice; the(...) raises MultipleSolutionFound although exactly one domain element matches.
"""
from __future__ import annotations
import sys
from dataclasses import dataclass, field
from typing import List

from krrood.entity_query_language.predicate import Symbol
from krrood.entity_query_language.symbol_graph import SymbolGraph
from krrood.entity_query_language.quantify_entity import an, the
from krrood.entity_query_language.match import entity_matching, match, match_any


@dataclass(eq=False)
class Part(Symbol):
    name: str
    size: int = 1


@dataclass(eq=False)
class Box(Symbol):
    name: str
    parts: List[Part] = field(default_factory=list)


SymbolGraph()
a, b, c = Part("a", 1), Part("b", 1), Part("c", 2)
box1, box2 = Box("box1", [a, b]), Box("box2", [c])
boxes = [box1, box2]
expected = [x.name for x in boxes if any(p.size == 1 for p in x.parts)]
bad = False

for label, pattern in [
    ("parts=match(Part)(size=1)", lambda: match(Part)(size=1)),
    ("parts=match_any(Part)(size=1)", lambda: match_any(Part)(size=1)),
    ("parts=[a, b]", lambda: [a, b]),
]:
    got = [x.name for x in an(entity_matching(Box, boxes)(parts=pattern())).evaluate()]
    print(f"an(...{label}): expected", expected, "got", got)
    bad |= got != expected
    try:
        one = the(entity_matching(Box, boxes)(parts=pattern())).evaluate()
        print(f"the(...{label}): got", one.name)
    except Exception as e:
        print(f"the(...{label}): expected box1, got {type(e).__name__}: {e}")
        bad = True
sys.exit(1 if bad else 0)
