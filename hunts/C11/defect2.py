"""
match_all(Type)(**kwargs): the universal flag of a typed (nested) match is ignored, it behaves like match().

Expected: parts=match_all(Part)(size=1) -> the boxes ALL of whose parts have size 1.
Got:      the boxes with AT LEAST ONE part of size 1 (and one answer per such part).
"""
from __future__ import annotations
import sys
from dataclasses import dataclass, field
from typing import List

from krrood.entity_query_language.predicate import Symbol
from krrood.entity_query_language.symbol_graph import SymbolGraph
from krrood.entity_query_language.quantify_entity import an
from krrood.entity_query_language.match import entity_matching, match_all


@dataclass(eq=False)
class Part(Symbol):
    name: str
    size: int = 1


@dataclass(eq=False)
class Box(Symbol):
    name: str
    parts: List[Part] = field(default_factory=list)


SymbolGraph()
small, big = Part("small", 1), Part("big", 2)
mixed, uniform = Box("mixed", [small, big]), Box("uniform", [small])
boxes = [mixed, uniform]

got = [b.name for b in an(entity_matching(Box, boxes)(parts=match_all(Part)(size=1))).evaluate()]
expected = [b.name for b in boxes if all(isinstance(p, Part) and p.size == 1 for p in b.parts)]
print("parts=match_all(Part)(size=1): expected", expected, "got", got)
sys.exit(0 if got == expected else 1)
