"""
The type of a nested match is only enforced when it is a strict SUBCLASS of the attribute's declared type. A match
type that is not (e.g. a mixin that some of the values also inherit from) is silently not enforced at all.

Expected: main=match(Fragile)() -> ['b2'] (only b2.main is a Fragile)
Got:      ['b1', 'b2']
"""
from __future__ import annotations
import sys
from dataclasses import dataclass, field
from typing import List

from krrood.entity_query_language.predicate import Symbol
from krrood.entity_query_language.symbol_graph import SymbolGraph
from krrood.entity_query_language.quantify_entity import an
from krrood.entity_query_language.match import entity_matching, match


@dataclass(eq=False)
class Fragile(Symbol):
    pass


@dataclass(eq=False)
class Part(Symbol):
    name: str


@dataclass(eq=False)
class FragilePart(Part, Fragile):
    pass


@dataclass(eq=False)
class Box(Symbol):
    name: str
    main: Part
    parts: List[Part] = field(default_factory=list)


SymbolGraph()
p, f = Part("p"), FragilePart("f")
boxes = [Box("b1", p, [p]), Box("b2", f, [p, f])]
bad = False
for label, kwargs, oracle in [
    ("main=match(Fragile)()", lambda: dict(main=match(Fragile)()), lambda b: isinstance(b.main, Fragile)),
    ('parts=match(Fragile)(name="p")', lambda: dict(parts=match(Fragile)(name="p")),
     lambda b: any(isinstance(x, Fragile) and x.name == "p" for x in b.parts)),
]:
    expected = [b.name for b in boxes if oracle(b)]
    got = sorted({b.name for b in an(entity_matching(Box, boxes)(**kwargs())).evaluate()})
    print(label, ": expected", expected, "got", got)
    bad |= got != expected
sys.exit(1 if bad else 0)
