"""
Second use of the same sub-pattern object: a nested Match that was already resolved by one query is treated as a
"literal variable" by the next pattern that uses it; its kwargs are silently dropped and it is joined with the
attribute of the FIRST query.

Expected: both queries -> ['b1'] (the box whose main part has size 1)
Got:      first -> ['b1'], second -> ['b1', 'b2']
"""
from __future__ import annotations
import sys
from dataclasses import dataclass

from krrood.entity_query_language.predicate import Symbol
from krrood.entity_query_language.symbol_graph import SymbolGraph
from krrood.entity_query_language.quantify_entity import an
from krrood.entity_query_language.match import entity_matching, match


@dataclass(eq=False)
class Part(Symbol):
    name: str
    size: int = 1


@dataclass(eq=False)
class Box(Symbol):
    name: str
    main: Part


SymbolGraph()
boxes = [Box("b1", Part("small", 1)), Box("b2", Part("big", 2))]
small_part = match(Part)(size=1)
first = [b.name for b in an(entity_matching(Box, boxes)(main=small_part)).evaluate()]
second = [b.name for b in an(entity_matching(Box, boxes)(main=small_part)).evaluate()]
expected = [b.name for b in boxes if b.main.size == 1]
print("first use : expected", expected, "got", first)
print("second use: expected", expected, "got", second)
sys.exit(0 if first == expected and second == expected else 1)
