"""
A literal for a SCALAR attribute means equality - unless the literal object happens to be iterable, then the pattern
silently becomes "attribute value is a member of the literal".

Expected: owner=t1 (Team defines __iter__ over its members) -> ['pr1', 'pr3'];  roles={"a": m1} -> ['pr1']
Got:      [] ;  TypeError: unhashable type: 'dict'
"""
from __future__ import annotations
import sys
from dataclasses import dataclass, field
from typing import List, Optional, Dict

from krrood.entity_query_language.predicate import Symbol
from krrood.entity_query_language.symbol_graph import SymbolGraph
from krrood.entity_query_language.quantify_entity import an
from krrood.entity_query_language.match import entity_matching


@dataclass(eq=False)
class Member(Symbol):
    name: str


@dataclass(eq=False)
class Team(Symbol):
    name: str
    members: List[Member] = field(default_factory=list)

    def __iter__(self):
        return iter(self.members)


@dataclass(eq=False)
class Project(Symbol):
    name: str
    owner: Optional[Team] = None
    roles: Dict[str, Member] = field(default_factory=dict)


SymbolGraph()
m1, m2 = Member("m1"), Member("m2")
t1, t2 = Team("t1", [m1]), Team("t2", [m2])
projects = [Project("pr1", t1, {"a": m1}), Project("pr2", t2), Project("pr3", t1)]
bad = False
for label, kwargs, oracle in [
    ("owner=t1", dict(owner=t1), lambda p: p.owner == t1),
    ('roles={"a": m1}', dict(roles={"a": m1}), lambda p: p.roles == {"a": m1}),
]:
    expected = [p.name for p in projects if oracle(p)]
    try:
        got = [p.name for p in an(entity_matching(Project, projects)(**kwargs)).evaluate()]
    except Exception as e:
        got = f"{type(e).__name__}: {e}"
    print(label, ": expected", expected, "got", got)
    bad |= got != expected
sys.exit(1 if bad else 0)
