"""
match_any([]) / match_all([]) : an EMPTY literal collection silently drops the whole constraint.

Expected: match_all([]) -> only the elements whose collection attribute has no elements (same set of elements),
          match_any([]) -> nothing (no common element possible).
Got:      every domain element, for both.
"""
from __future__ import annotations
import sys
from dataclasses import dataclass, field
from typing import List

from krrood.entity_query_language.predicate import Symbol
from krrood.entity_query_language.symbol_graph import SymbolGraph
from krrood.entity_query_language.quantify_entity import an
from krrood.entity_query_language.match import entity_matching, match_any, match_all


@dataclass(eq=False)
class Part(Symbol):
    name: str


@dataclass(eq=False)
class Box(Symbol):
    name: str
    parts: List[Part] = field(default_factory=list)


SymbolGraph()
p1 = Part("p1")
full, empty = Box("full", [p1]), Box("empty", [])
boxes = [full, empty]

got_all = [b.name for b in an(entity_matching(Box, boxes)(parts=match_all([]))).evaluate()]
got_any = [b.name for b in an(entity_matching(Box, boxes)(parts=match_any([]))).evaluate()]
exp_all = [b.name for b in boxes if set(map(id, b.parts)) == set()]
exp_any = [b.name for b in boxes if any(x in [] for x in b.parts)]
print("match_all([]): expected", exp_all, "got", got_all)
print("match_any([]): expected", exp_any, "got", got_any)
sys.exit(0 if (got_all == exp_all and got_any == exp_any) else 1)
