"""
match / entity_matching advertise `Union[Type[T], CanBehaveLikeAVariable[T], Any]` as their subject, but
  * a variable WITH a domain (and every Literal) reports itself as "iterable", so a nested match over a variable or
    over a plain object becomes `attr in <one value>` -> TypeError, and the kwargs of that nested match are never
    resolved;
  * at top level a match over a variable is not turned into a query at all (InvalidEntityType).

Expected: every query below -> ['b1']
"""
from __future__ import annotations
import sys
from dataclasses import dataclass

from krrood.entity_query_language.predicate import Symbol
from krrood.entity_query_language.symbol_graph import SymbolGraph
from krrood.entity_query_language.entity import let
from krrood.entity_query_language.quantify_entity import an
from krrood.entity_query_language.match import entity_matching, match


@dataclass(eq=False)
class Part(Symbol):
    name: str
    size: int = 1


@dataclass(eq=False)
class Box(Symbol):
    name: str
    main: Part


SymbolGraph()
small, big = Part("small", 1), Part("big", 2)
boxes = [Box("b1", small), Box("b2", big)]
bad = False
for label, build in [
    ("main=match(let(Part, parts))(size=1)", lambda: entity_matching(Box, boxes)(main=match(let(Part, [small, big]))(size=1))),
    ("main=match(small)()", lambda: entity_matching(Box, boxes)(main=match(small)())),
    ("main=let(Part, [small])", lambda: entity_matching(Box, boxes)(main=let(Part, [small]))),
    ('entity_matching(let(Box, boxes), None)(name="b1")', lambda: entity_matching(let(Box, boxes), None)(name="b1")),
]:
    try:
        got = [b.name for b in an(build()).evaluate()]
    except Exception as e:
        got = f"{type(e).__name__}: {e}"
    print(label, ": expected ['b1'] got", got)
    bad |= got != ["b1"]
sys.exit(1 if bad else 0)
