"""
C13 defect 2: instances of a Symbol class that answer the attribute name `_id_` (a field called `_id_`, or a
permissive __getattr__ as in record / proxy classes) are identified by that value instead of by their identity.
As soon as the domain of the variable is walked a second time (any query with a second variable) instances with
equal `_id_` collapse into one: the variable does not range over each live instance once.
"""
import sys
from dataclasses import dataclass, field

from krrood.entity_query_language.entity import let, set_of
from krrood.entity_query_language.quantify_entity import an
from krrood.entity_query_language.predicate import Symbol


@dataclass(eq=False)
class Key(Symbol):
    n: int = 0


@dataclass(eq=False)
class Record(Symbol):
    """A record whose unknown attributes are looked up in its data (missing ones are None)."""

    data: dict = field(default_factory=dict)

    def __getattr__(self, name):
        if name.startswith("__") or name == "data":
            raise AttributeError(name)
        return self.data.get(name)


keys = [Key(1), Key(2)]
records = [Record({"a": 1}), Record({"a": 2}), Record({"a": 3})]

k = let(Key, None)
r = let(Record, None)
pairs = [(row[k].n, row[r].data["a"]) for row in an(set_of([k, r])).evaluate()]
expected = sorted((key.n, rec.data["a"]) for key in keys for rec in records)
print("expected pairs:", expected)
print("got pairs     :", sorted(pairs))
if sorted(pairs) != expected:
    print("VIOLATION: for the second Key the Record variable ranges over", len([p for p in pairs if p[0] == 2]),
          "of the 3 live records")
    sys.exit(1)
print("ok")
