"""
C13 defect 3: SymbolGraph().clear() followed by the re-creation of the graph forgets the Symbol instances that are
still alive. Afterwards a domain-less variable ranges over the instances created after the clear, plus those older
instances that happen to be touched again by a property descriptor (they are wrapped again on demand), but not over
the other live instances.
"""
from __future__ import annotations

import sys
from dataclasses import dataclass, field

from typing_extensions import List

from krrood.entity_query_language.entity import let, entity
from krrood.entity_query_language.quantify_entity import an
from krrood.entity_query_language.predicate import Symbol
from krrood.entity_query_language.symbol_graph import SymbolGraph
from krrood.ontomatic.property_descriptor.property_descriptor import PropertyDescriptor


@dataclass(eq=False)
class Company(Symbol):
    name: str = ""


@dataclass(eq=False)
class Person(Symbol):
    name: str = ""
    works_for: Company = None


@dataclass
class WorksFor(PropertyDescriptor): ...


Person.works_for = WorksFor(Person, "works_for")

# the class diagram of the graph has to know the classes above (same idiom as the repository's tests)
SymbolGraph().clear()
SymbolGraph()


def names(type_):
    return sorted(o.name for o in an(entity(let(type_, None))).evaluate())


c1, c2, p1 = Company("c1"), Company("c2"), Person("p1")
print("before clear          :", names(Company), names(Person))

SymbolGraph().clear()
SymbolGraph()
after_clear = (names(Company), names(Person))
print("after clear/re-create :", *after_clear, " (c1, c2, p1 are all still alive)")

c3 = Company("c3")
p1.works_for = c1
after_touch = (names(Company), names(Person))
print("after p1.works_for=c1 :", *after_touch)

expected = (["c1", "c2", "c3"], ["p1"])
print("expected              :", *expected)
if after_touch != expected:
    print("VIOLATION: live instances are missing from the range of the variable (and which ones are missing "
          "depends on whether a relation touched them after the clear)")
    sys.exit(1)
print("ok")
