"""
C13 defect 4: the set a domain-less variable ranges over is not a snapshot of one moment. The per-class lists are
copied lazily, one class after the other, while the evaluation is running. Instances created during the evaluation
(by the rule's own conclusions, or by the consumer between two results) are visited if their class comes later in
the subclass order than the one that is currently walked, and not visited otherwise.

The same rule "give every Node a child" produces 2 children for 2 nodes when the children are Nodes, and 4 when
they are instances of a subclass of Node.
"""
import sys
from dataclasses import dataclass
from typing import Optional

from krrood.entity_query_language.entity import let, entity, inference
from krrood.entity_query_language.quantify_entity import an
from krrood.entity_query_language.predicate import Symbol, HasType
from krrood.entity_query_language.conclusion import Add


def make_hierarchy():
    @dataclass(eq=False)
    class Node(Symbol):
        parent: Optional[object] = None

    @dataclass(eq=False)
    class Leaf(Node):
        pass

    return Node, Leaf


def give_every_node_a_child(node_class, child_class):
    n = let(node_class, None)
    query = an(entity(v := inference(node_class)(), HasType(n, node_class)))
    with query:
        Add(v, inference(child_class)(parent=n))
    return query


Node1, Leaf1 = make_hierarchy()
roots1 = [Node1(), Node1()]
same_class = list(give_every_node_a_child(Node1, Node1).evaluate())
print("2 nodes, children are Nodes        -> children created:", len(same_class))

Node2, Leaf2 = make_hierarchy()
roots2 = [Node2(), Node2()]
subclass = list(give_every_node_a_child(Node2, Leaf2).evaluate())
print("2 nodes, children are Leaf(Node)s  -> children created:", len(subclass))

if len(subclass) != 2 or len(same_class) != 2:
    print("VIOLATION: the variable also ranged over instances that were created while it was being evaluated, "
          "but only because they are instances of a subclass (expected 2 in both cases)")
    sys.exit(1)
print("ok")
