"""
C13 (mechanism) defect 5: dead instances are only swept out of the instance graph when a query is evaluated. Until
then the node of a collected instance and its relation edges stay in the graph, and the other user of the graph -
the inference of transitive / inverse relations - walks into the dead node and crashes.

History: c1 -> c2 (transitive relation), c1 is dropped and collected, no query is evaluated, c2 -> c3 is added.
"""
from __future__ import annotations

import gc
import sys
import traceback
import weakref
from dataclasses import dataclass, field

from typing_extensions import List

from krrood.entity_query_language.predicate import Symbol
from krrood.entity_query_language.symbol_graph import SymbolGraph
from krrood.ontomatic.property_descriptor.mixins import TransitiveProperty
from krrood.ontomatic.property_descriptor.property_descriptor import PropertyDescriptor


@dataclass(eq=False)
class Company(Symbol):
    name: str = ""
    sub_organization_of: List[Company] = field(default_factory=list)


@dataclass
class SubOrganizationOf(PropertyDescriptor, TransitiveProperty): ...


Company.sub_organization_of = SubOrganizationOf(Company, "sub_organization_of")

SymbolGraph().clear()
SymbolGraph()

c1, c2, c3 = Company("c1"), Company("c2"), Company("c3")
c1.sub_organization_of.append(c2)
dead = weakref.ref(c1)
del c1
gc.collect()
print("c1 collected:", dead() is None)
try:
    c2.sub_organization_of.append(c3)
except Exception as e:
    traceback.print_exc()
    print("VIOLATION: adding a relation between two live instances fails because the graph still holds the node "
          "and the edges of a collected instance:", type(e).__name__, e)
    sys.exit(1)
print("c2.sub_organization_of =", [c.name for c in c2.sub_organization_of])
print("ok")
