"""
C13 defect 1: a domain-less variable that enters a query through a rule branch added AFTER the query has been
evaluated once keeps the domain of its first use for ever (instances created later are never seen).

History: build query -> evaluate -> add an alternative branch over let(B, None) -> evaluate -> create a B -> evaluate.
"""
import sys
from dataclasses import dataclass

from krrood.entity_query_language.entity import let, entity, inference
from krrood.entity_query_language.quantify_entity import an
from krrood.entity_query_language.predicate import Symbol
from krrood.entity_query_language.conclusion import Add
from krrood.entity_query_language.rule import alternative


@dataclass(eq=False)
class A(Symbol):
    x: int = 0


@dataclass(eq=False)
class B(Symbol):
    x: int = 0


@dataclass(eq=False)
class V(Symbol):
    src: object = None


def build(evaluate_before_extending: bool):
    a = let(A, None)
    b = let(B, None)
    query = an(entity(v := inference(V)(), a.x > 5))
    if evaluate_before_extending:
        list(query.evaluate())  # the user looks at the base rule first (usual ripple-down-rules workflow)
    with query:
        Add(v, inference(V)(src=a))
        with alternative(b.x > 0):
            Add(v, inference(V)(src=b))
    return query


def sources(query):
    return sorted((type(r.src).__name__, r.src.x) for r in query.evaluate())


keep = [A(1), B(1)]
reference = build(evaluate_before_extending=False)
query = build(evaluate_before_extending=True)
print("first evaluation  :", sources(query), "| reference:", sources(reference))
keep.append(B(2))
expected = sources(reference)
got = sources(query)
print("after creating B(2), expected (same rule, never evaluated before it was extended):", expected)
print("after creating B(2), got                                                         :", got)
if got != expected:
    print("VIOLATION: let(B, None) does not range over the B instances that exist at evaluation time")
    sys.exit(1)
print("ok")
