"""
C05 defect 11 - an empty relationship collection is restored as the DAO's own SQLAlchemy collection.

FromDAOState.parse_collection returns `value` itself when it is empty, so the domain object ends up holding the
InstrumentedList that belongs to the (session attached) DAO: it is not a list of the domain, it is shared with
the DAO, and appending a domain object to it raises.
"""
from __future__ import annotations
import importlib.util, os, sys, tempfile, itertools, traceback, warnings
warnings.filterwarnings("ignore")
from sqlalchemy import select
from sqlalchemy.orm import Session, configure_mappers
from krrood.class_diagrams.class_diagram import ClassDiagram
from krrood.ormatic.ormatic import ORMatic
from krrood.ormatic.utils import create_engine
from krrood.ormatic.dao import to_dao, AlternativeMapping

_n = itertools.count()


def build(classes, alternative_mappings=()):
    """generate an ORMatic interface for the classes, import it, create a fresh in-memory database"""
    ormatic = ORMatic(
        class_dependency_graph=ClassDiagram(list(classes)),
        alternative_mappings=list(alternative_mappings),
    )
    ormatic.make_all_tables()
    name = f"hunt_interface_{next(_n)}"
    path = os.path.join(tempfile.mkdtemp(), name + ".py")
    with open(path, "w") as f:
        ormatic.to_sqlalchemy_file(f)
    spec = importlib.util.spec_from_file_location(name, path)
    module = importlib.util.module_from_spec(spec)
    sys.modules[name] = module
    spec.loader.exec_module(module)
    configure_mappers()
    engine = create_engine("sqlite:///:memory:")
    module.Base.metadata.create_all(engine)
    return module, engine


def persist_and_reload(engine, obj, dao_class=None):
    """to_dao + add + commit in one session, load the rows of dao_class in a second session"""
    dao = to_dao(obj)
    with Session(engine) as session:
        session.add(dao)
        session.commit()
    fresh = Session(engine)
    return fresh.scalars(select(dao_class or type(dao))).all(), fresh

from dataclasses import dataclass, field
from typing import List


@dataclass
class P:
    x: int


@dataclass
class Agg:
    items: List[P] = field(default_factory=list)


module, engine = build([P, Agg])
rows, session = persist_and_reload(engine, Agg([]))
back = rows[0].from_dao()
print("expected: type(back.items) is list, independent of the DAO, usable")
print("got     :", type(back.items), "same object as the DAO collection:", back.items is rows[0].items)
try:
    back.items.append(P(1))
    print("append worked")
except Exception as e:
    print("append   :", type(e).__name__, e)
    sys.exit(1)
sys.exit(0 if type(back.items) is list else 1)
