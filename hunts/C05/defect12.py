"""
C05 defect 12 - functions and types that are defined inside a class are stored under an ambiguous name.

FunctionMapping.create_instance keeps only the FIRST component of __qualname__ as class name, TypeType stores
module + __name__.  A function of a nested class (Outer.Inner.method) or a nested class (Outer.Inner) in a
FunctionType / Type[...] field is written without complaint and cannot be read back (or, if the module happens
to have a top-level object of that name, comes back as the wrong object).
"""
from __future__ import annotations
import importlib.util, os, sys, tempfile, itertools, traceback, warnings
warnings.filterwarnings("ignore")
from sqlalchemy import select
from sqlalchemy.orm import Session, configure_mappers
from krrood.class_diagrams.class_diagram import ClassDiagram
from krrood.ormatic.ormatic import ORMatic
from krrood.ormatic.utils import create_engine
from krrood.ormatic.dao import to_dao, AlternativeMapping

_n = itertools.count()


def build(classes, alternative_mappings=()):
    """generate an ORMatic interface for the classes, import it, create a fresh in-memory database"""
    ormatic = ORMatic(
        class_dependency_graph=ClassDiagram(list(classes)),
        alternative_mappings=list(alternative_mappings),
    )
    ormatic.make_all_tables()
    name = f"hunt_interface_{next(_n)}"
    path = os.path.join(tempfile.mkdtemp(), name + ".py")
    with open(path, "w") as f:
        ormatic.to_sqlalchemy_file(f)
    spec = importlib.util.spec_from_file_location(name, path)
    module = importlib.util.module_from_spec(spec)
    sys.modules[name] = module
    spec.loader.exec_module(module)
    configure_mappers()
    engine = create_engine("sqlite:///:memory:")
    module.Base.metadata.create_all(engine)
    return module, engine


def persist_and_reload(engine, obj, dao_class=None):
    """to_dao + add + commit in one session, load the rows of dao_class in a second session"""
    dao = to_dao(obj)
    with Session(engine) as session:
        session.add(dao)
        session.commit()
    fresh = Session(engine)
    return fresh.scalars(select(dao_class or type(dao))).all(), fresh

from dataclasses import dataclass
from types import FunctionType
from typing import Type
from krrood.ormatic.alternative_mappings import FunctionMapping


class Outer:
    class Inner:
        def method(self):
            return 1


@dataclass
class FunctionHolder:
    func: FunctionType


@dataclass
class TypeHolder:
    tp: Type


failed = False
module, _ = build([FunctionHolder, TypeHolder, FunctionType], alternative_mappings=[FunctionMapping])
for original in (FunctionHolder(Outer.Inner.method), TypeHolder(Outer.Inner)):
    engine = create_engine("sqlite:///:memory:")  # fresh database for every case
    module.Base.metadata.create_all(engine)
    print("expected:", original)
    try:
        rows, session = persist_and_reload(engine, original)
        back = rows[0].from_dao()
        print("got     :", back)
        failed |= back != original
    except Exception as e:
        traceback.print_exc(limit=-1)
        print("got     :", type(e).__name__, e)
        failed = True
sys.exit(1 if failed else 0)
