"""
C05 defect 4 - a frozen dataclass that references another mapped object cannot be restored.

FromDAOState.parse_single / parse_collection decide "this was a circular reference" by
`parsed is self.memo.get(id(value))`, which is true for EVERY converted value (from_dao always memoises its
result).  So every non-None relationship is "fixed" afterwards with setattr(result, key, ...), which a frozen
dataclass refuses - although there is no cycle anywhere and __init__ already got the right values.
"""
from __future__ import annotations
import importlib.util, os, sys, tempfile, itertools, traceback, warnings
warnings.filterwarnings("ignore")
from sqlalchemy import select
from sqlalchemy.orm import Session, configure_mappers
from krrood.class_diagrams.class_diagram import ClassDiagram
from krrood.ormatic.ormatic import ORMatic
from krrood.ormatic.utils import create_engine
from krrood.ormatic.dao import to_dao, AlternativeMapping

_n = itertools.count()


def build(classes, alternative_mappings=()):
    """generate an ORMatic interface for the classes, import it, create a fresh in-memory database"""
    ormatic = ORMatic(
        class_dependency_graph=ClassDiagram(list(classes)),
        alternative_mappings=list(alternative_mappings),
    )
    ormatic.make_all_tables()
    name = f"hunt_interface_{next(_n)}"
    path = os.path.join(tempfile.mkdtemp(), name + ".py")
    with open(path, "w") as f:
        ormatic.to_sqlalchemy_file(f)
    spec = importlib.util.spec_from_file_location(name, path)
    module = importlib.util.module_from_spec(spec)
    sys.modules[name] = module
    spec.loader.exec_module(module)
    configure_mappers()
    engine = create_engine("sqlite:///:memory:")
    module.Base.metadata.create_all(engine)
    return module, engine


def persist_and_reload(engine, obj, dao_class=None):
    """to_dao + add + commit in one session, load the rows of dao_class in a second session"""
    dao = to_dao(obj)
    with Session(engine) as session:
        session.add(dao)
        session.commit()
    fresh = Session(engine)
    return fresh.scalars(select(dao_class or type(dao))).all(), fresh

from dataclasses import dataclass


@dataclass(frozen=True)
class Point:
    x: int


@dataclass(frozen=True)
class Segment:
    start: Point
    end: Point


module, engine = build([Point, Segment])
segment = Segment(Point(1), Point(2))
rows, session = persist_and_reload(engine, segment)
print("expected:", segment)
try:
    back = rows[0].from_dao()
except Exception as e:
    traceback.print_exc(limit=-2)
    print("got     :", type(e).__name__, e)
    sys.exit(1)
print("got     :", back)
sys.exit(0 if back == segment else 1)
