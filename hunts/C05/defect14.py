"""
C05 defect 14 - a reference chain of a few hundred objects cannot be converted (RecursionError).

to_dao / from_dao recurse through every reference (about 4 python frames for to_dao, more through SQLAlchemy's
instrumented constructor), so a linked list of ~300 objects already exceeds the default recursion limit.
"""
from __future__ import annotations
import importlib.util, os, sys, tempfile, itertools, traceback, warnings
warnings.filterwarnings("ignore")
from sqlalchemy import select
from sqlalchemy.orm import Session, configure_mappers
from krrood.class_diagrams.class_diagram import ClassDiagram
from krrood.ormatic.ormatic import ORMatic
from krrood.ormatic.utils import create_engine
from krrood.ormatic.dao import to_dao, AlternativeMapping

_n = itertools.count()


def build(classes, alternative_mappings=()):
    """generate an ORMatic interface for the classes, import it, create a fresh in-memory database"""
    ormatic = ORMatic(
        class_dependency_graph=ClassDiagram(list(classes)),
        alternative_mappings=list(alternative_mappings),
    )
    ormatic.make_all_tables()
    name = f"hunt_interface_{next(_n)}"
    path = os.path.join(tempfile.mkdtemp(), name + ".py")
    with open(path, "w") as f:
        ormatic.to_sqlalchemy_file(f)
    spec = importlib.util.spec_from_file_location(name, path)
    module = importlib.util.module_from_spec(spec)
    sys.modules[name] = module
    spec.loader.exec_module(module)
    configure_mappers()
    engine = create_engine("sqlite:///:memory:")
    module.Base.metadata.create_all(engine)
    return module, engine


def persist_and_reload(engine, obj, dao_class=None):
    """to_dao + add + commit in one session, load the rows of dao_class in a second session"""
    dao = to_dao(obj)
    with Session(engine) as session:
        session.add(dao)
        session.commit()
    fresh = Session(engine)
    return fresh.scalars(select(dao_class or type(dao))).all(), fresh

from dataclasses import dataclass
from typing import Optional


@dataclass
class Node:
    parent: Optional[Node] = None


module, engine = build([Node])
N = 400
node = None
for _ in range(N):
    node = Node(node)
print(f"expected: a chain of {N} Node objects is stored as {N} rows and restored")
try:
    rows, session = persist_and_reload(engine, node)
    head = session.scalars(select(module.NodeDAO).order_by(module.NodeDAO.database_id.desc())).first().from_dao()
    depth = 0
    while head is not None:
        head, depth = head.parent, depth + 1
except RecursionError as e:
    print("got     : RecursionError:", e)
    sys.exit(1)
print("got     :", len(rows), "rows, longest restored chain", depth)
sys.exit(0 if len(rows) == N else 1)
