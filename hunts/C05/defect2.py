"""
C05 defect 2 - a grandchild of an alternatively mapped class loses the attributes of that base.

to_dao() looks for the nearest alternatively mapped ancestor in the whole MRO, from_dao() only looks at the
DIRECT base of the DAO class (self.__class__.__bases__[0]).  Same shape as the repository's
ParentAlternativelyMapped / ChildLevel1NormallyMapped / ChildLevel2NormallyMapped.
"""
from __future__ import annotations
import importlib.util, os, sys, tempfile, itertools, traceback, warnings
warnings.filterwarnings("ignore")
from sqlalchemy import select
from sqlalchemy.orm import Session, configure_mappers
from krrood.class_diagrams.class_diagram import ClassDiagram
from krrood.ormatic.ormatic import ORMatic
from krrood.ormatic.utils import create_engine
from krrood.ormatic.dao import to_dao, AlternativeMapping

_n = itertools.count()


def build(classes, alternative_mappings=()):
    """generate an ORMatic interface for the classes, import it, create a fresh in-memory database"""
    ormatic = ORMatic(
        class_dependency_graph=ClassDiagram(list(classes)),
        alternative_mappings=list(alternative_mappings),
    )
    ormatic.make_all_tables()
    name = f"hunt_interface_{next(_n)}"
    path = os.path.join(tempfile.mkdtemp(), name + ".py")
    with open(path, "w") as f:
        ormatic.to_sqlalchemy_file(f)
    spec = importlib.util.spec_from_file_location(name, path)
    module = importlib.util.module_from_spec(spec)
    sys.modules[name] = module
    spec.loader.exec_module(module)
    configure_mappers()
    engine = create_engine("sqlite:///:memory:")
    module.Base.metadata.create_all(engine)
    return module, engine


def persist_and_reload(engine, obj, dao_class=None):
    """to_dao + add + commit in one session, load the rows of dao_class in a second session"""
    dao = to_dao(obj)
    with Session(engine) as session:
        session.add(dao)
        session.commit()
    fresh = Session(engine)
    return fresh.scalars(select(dao_class or type(dao))).all(), fresh

from dataclasses import dataclass


@dataclass
class Ent:
    name: str = "default"


@dataclass
class EntMapping(AlternativeMapping[Ent]):
    stored: str

    @classmethod
    def create_instance(cls, obj):
        return cls(obj.name)

    def create_from_dao(self):
        return Ent(self.stored)


@dataclass
class Sub(Ent):
    extra: int = 0


@dataclass
class SubSub(Sub):
    more: int = 0


module, engine = build([Ent, Sub, SubSub], alternative_mappings=[EntMapping])
failed = False
for original in (Sub("child", 1), SubSub("grandchild", 2, 3)):
    for loader in ("EntMappingDAO", "SubDAO", type(to_dao(original)).__name__):
        engine = create_engine("sqlite:///:memory:")  # fresh database for every case
        module.Base.metadata.create_all(engine)
        rows, session = persist_and_reload(engine, original, getattr(module, loader))
        back = rows[0].from_dao()
        ok = back == original
        failed |= not ok
        print(f"via {loader:14} row {rows[0]!r:55} expected {original!r}  got {back!r}  {'ok' if ok else 'WRONG'}")
sys.exit(1 if failed else 0)
