"""
C05 defect 10 - with two generated interfaces for the same classes in one process, to_dao mixes their DAO classes.

get_dao_class() searches recursive_subclasses(DataAccessObject) process-wide (and is lru_cached) and returns the
first DAO whose original class matches.  Extending an interface (the documented workflow of
test_extension.py / get_classes_of_ormatic_interface) imports the old interface and then the extended one: the
new classes get DAOs of the new module, the old classes DAOs of the old module, and the graph cannot be added
to a session.
"""
from __future__ import annotations
import importlib.util, os, sys, tempfile, itertools, traceback, warnings
warnings.filterwarnings("ignore")
from sqlalchemy import select
from sqlalchemy.orm import Session, configure_mappers
from krrood.class_diagrams.class_diagram import ClassDiagram
from krrood.ormatic.ormatic import ORMatic
from krrood.ormatic.utils import create_engine
from krrood.ormatic.dao import to_dao, AlternativeMapping

_n = itertools.count()


def build(classes, alternative_mappings=()):
    """generate an ORMatic interface for the classes, import it, create a fresh in-memory database"""
    ormatic = ORMatic(
        class_dependency_graph=ClassDiagram(list(classes)),
        alternative_mappings=list(alternative_mappings),
    )
    ormatic.make_all_tables()
    name = f"hunt_interface_{next(_n)}"
    path = os.path.join(tempfile.mkdtemp(), name + ".py")
    with open(path, "w") as f:
        ormatic.to_sqlalchemy_file(f)
    spec = importlib.util.spec_from_file_location(name, path)
    module = importlib.util.module_from_spec(spec)
    sys.modules[name] = module
    spec.loader.exec_module(module)
    configure_mappers()
    engine = create_engine("sqlite:///:memory:")
    module.Base.metadata.create_all(engine)
    return module, engine


def persist_and_reload(engine, obj, dao_class=None):
    """to_dao + add + commit in one session, load the rows of dao_class in a second session"""
    dao = to_dao(obj)
    with Session(engine) as session:
        session.add(dao)
        session.commit()
    fresh = Session(engine)
    return fresh.scalars(select(dao_class or type(dao))).all(), fresh

from dataclasses import dataclass
from typing import List


@dataclass
class P:
    x: int


@dataclass
class Agg:
    items: List[P]


@dataclass
class Extra:
    agg: Agg


old_module, old_engine = build([P, Agg])
new_module, new_engine = build([P, Agg, Extra])  # the extended interface
original = Extra(Agg([P(1)]))
dao = to_dao(original)
print("DAO modules:", type(dao).__module__, type(dao.agg).__module__, type(dao.agg.items[0]).__module__)
print("expected:", original)
try:
    with Session(new_engine) as session:
        session.add(dao)
        session.commit()
    back = Session(new_engine).scalars(select(new_module.ExtraDAO)).one().from_dao()
except Exception as e:
    traceback.print_exc(limit=-1)
    print("got     :", type(e).__name__, e)
    sys.exit(1)
print("got     :", back)
sys.exit(0 if back == original else 1)
