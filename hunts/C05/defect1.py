"""
C05 defect 1 - subclasses of an alternatively mapped class get the base attributes of ANOTHER object.

from_dao() of a DAO whose direct base is alternatively mapped builds a temporary parent DAO, converts it with
the shared FromDAOState (memo keyed by id(dao)) and lets the temporary die.  The next temporary (or any DAO
that is lazily loaded later) can get the same id() and then "is already converted" - it receives the object
that was built for the earlier one.
"""
from __future__ import annotations
import importlib.util, os, sys, tempfile, itertools, traceback, warnings
warnings.filterwarnings("ignore")
from sqlalchemy import select
from sqlalchemy.orm import Session, configure_mappers
from krrood.class_diagrams.class_diagram import ClassDiagram
from krrood.ormatic.ormatic import ORMatic
from krrood.ormatic.utils import create_engine
from krrood.ormatic.dao import to_dao, AlternativeMapping

_n = itertools.count()


def build(classes, alternative_mappings=()):
    """generate an ORMatic interface for the classes, import it, create a fresh in-memory database"""
    ormatic = ORMatic(
        class_dependency_graph=ClassDiagram(list(classes)),
        alternative_mappings=list(alternative_mappings),
    )
    ormatic.make_all_tables()
    name = f"hunt_interface_{next(_n)}"
    path = os.path.join(tempfile.mkdtemp(), name + ".py")
    with open(path, "w") as f:
        ormatic.to_sqlalchemy_file(f)
    spec = importlib.util.spec_from_file_location(name, path)
    module = importlib.util.module_from_spec(spec)
    sys.modules[name] = module
    spec.loader.exec_module(module)
    configure_mappers()
    engine = create_engine("sqlite:///:memory:")
    module.Base.metadata.create_all(engine)
    return module, engine


def persist_and_reload(engine, obj, dao_class=None):
    """to_dao + add + commit in one session, load the rows of dao_class in a second session"""
    dao = to_dao(obj)
    with Session(engine) as session:
        session.add(dao)
        session.commit()
    fresh = Session(engine)
    return fresh.scalars(select(dao_class or type(dao))).all(), fresh

from dataclasses import dataclass
from typing import List


@dataclass
class Ent:
    name: str


@dataclass
class EntMapping(AlternativeMapping[Ent]):
    stored: str

    @classmethod
    def create_instance(cls, obj):
        return cls(obj.name)

    def create_from_dao(self):
        return Ent(self.stored)


@dataclass
class Sub(Ent):
    extra: int = 0


@dataclass
class Pos:
    x: int


@dataclass
class Holder:
    sub: Sub
    pos: Pos


@dataclass
class Top:
    holders: List[Holder]


module, engine = build([Ent, Sub, Pos, Holder, Top], alternative_mappings=[EntMapping])

# (a) deterministic view of the root cause: after converting ONE Sub row the memo has an entry under the id of
#     an object that no longer exists (the temporary parent DAO)
from krrood.ormatic.dao import FromDAOState

rows, session = persist_and_reload(engine, Sub("single", 1))
state = FromDAOState()
rows[0].from_dao(state=state)
dangling = [key for key in state.memo if key != id(rows[0])]
print("expected: the memo of from_dao only has entries for DAOs that are still alive, i.e. 1 entry")
print(f"got     : {len(state.memo)} entries, {len(dangling)} of them under the id of a dead temporary DAO "
      f"-> {[state.memo[k] for k in dangling]}")

# (b) the consequence on a larger graph
engine = create_engine("sqlite:///:memory:")
module.Base.metadata.create_all(engine)
N = 2000
top = Top([Holder(Sub(f"n{i}", i), Pos(i)) for i in range(N)])
rows, session = persist_and_reload(engine, top)
back = rows[0].from_dao()
wrong = [h for h in back.holders if h.sub.name != f"n{h.sub.extra}"]
print(f"expected: every reloaded Sub has name == 'n<extra>' ({N} holders)")
print(f"got     : {len(wrong)} of {len(back.holders)} holders carry the name of another object, e.g. {wrong[:3]}")
print("graph equal to the original:", back == top)
sys.exit(1 if wrong or dangling or back != top else 0)
