"""
C05 defect 5 - Set[...] / Tuple[...] / Sequence[...] fields of builtins are stored as JSON and come back as lists.

WrappedTable.create_json_column even distinguishes sets (Mapped[typing.Set[int]]), but the value is written
with to_json (-> JSON array) and read with from_json (-> list); nothing converts it back to the annotated
container, so the reloaded object is not equal to the original.
"""
from __future__ import annotations
import importlib.util, os, sys, tempfile, itertools, traceback, warnings
warnings.filterwarnings("ignore")
from sqlalchemy import select
from sqlalchemy.orm import Session, configure_mappers
from krrood.class_diagrams.class_diagram import ClassDiagram
from krrood.ormatic.ormatic import ORMatic
from krrood.ormatic.utils import create_engine
from krrood.ormatic.dao import to_dao, AlternativeMapping

_n = itertools.count()


def build(classes, alternative_mappings=()):
    """generate an ORMatic interface for the classes, import it, create a fresh in-memory database"""
    ormatic = ORMatic(
        class_dependency_graph=ClassDiagram(list(classes)),
        alternative_mappings=list(alternative_mappings),
    )
    ormatic.make_all_tables()
    name = f"hunt_interface_{next(_n)}"
    path = os.path.join(tempfile.mkdtemp(), name + ".py")
    with open(path, "w") as f:
        ormatic.to_sqlalchemy_file(f)
    spec = importlib.util.spec_from_file_location(name, path)
    module = importlib.util.module_from_spec(spec)
    sys.modules[name] = module
    spec.loader.exec_module(module)
    configure_mappers()
    engine = create_engine("sqlite:///:memory:")
    module.Base.metadata.create_all(engine)
    return module, engine


def persist_and_reload(engine, obj, dao_class=None):
    """to_dao + add + commit in one session, load the rows of dao_class in a second session"""
    dao = to_dao(obj)
    with Session(engine) as session:
        session.add(dao)
        session.commit()
    fresh = Session(engine)
    return fresh.scalars(select(dao_class or type(dao))).all(), fresh

from dataclasses import dataclass
from typing import Set, Tuple


@dataclass
class Tagged:
    tags: Set[str]
    size: Tuple[int, int]


module, engine = build([Tagged])
original = Tagged({"a"}, (640, 480))
rows, session = persist_and_reload(engine, original)
back = rows[0].from_dao()
print("expected:", original)
print("got     :", back)
sys.exit(0 if back == original else 1)
